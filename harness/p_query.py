"""Query-family properties (C01, C02, C03, C19, ...): the P-model / S-model of the evaluator."""
import re, collections, json
from qcase import coq_qcase, parse_rows, all_selected, cond_size, cond_ops, term_keys, in_dfrag
import gen_query

HEADER = "From EQL Require Import Base Values Syntax Spec Elab EvalPure Dedup Run.\nOpen Scope string_scope."
TARGETS = ['theories/Values.vo', 'theories/Syntax.vo', 'theories/Spec.vo', 'theories/Generated.vo', 'theories/Elab.vo',
           'theories/EvalPure.vo', 'theories/Dedup.vo', 'theories/Run.vo']


class QueryFamily:
    targets = TARGETS
    header = HEADER
    impl_script = 'impl_query.py'
    ordered = False           # does the property fix the ORDER of the rows?
    cache_configs = ('off', 'on')
    known_without_tie = True

    def budget(self, tier):
        return {'quick': 400, 'thorough': 6000, 'search': 1}.get(tier, 400)

    def to_coq(self, n, case):
        return f"Eval vm_compute in (run_qcase {n} {coq_qcase(case)})."

    def split(self, s):
        m = re.match(r'M (.*?) S (.*)$', s)
        return m.group(1), m.group(2), True

    def within_hypotheses(self, case):
        """C02_sound / C02_complete speak of the Cartesian product of NON-EMPTY domains: with an empty domain the product is empty
        although the evaluator may never need to enumerate that variable (a disjunct it is absent from).  Such cases are compared
        with the model only (engine: hyp = False)."""
        if concat_var_bound_before(case) or case.get('correlated'):
            return False
        return all_selected(case) or all(len(d) > 0 for _, d in case['doms'])

    # ---- canonicalisation: what the tie / the property compare -------------------------------
    def view(self, case, rows, strict):
        rows = parse_rows(rows)
        if isinstance(rows, str):
            return rows                      # an exception marker
        if strict and all_selected(case):
            return ('seq', rows) if self.ordered else ('multiset', sorted(rows))
        return ('set', sorted(set(rows)))

    def canon(self, case, io):
        # tie: caching disabled, first evaluation, compared with the model (sequence when every variable is selected)
        rows = parse_rows(io['off'])
        tie = ('seq', rows) if all_selected(case) and not isinstance(rows, str) else self.view(case, io['off'], False)
        # second tie, on the D-model's fragment: the exact row SEQUENCE, de-duplication of rows included (projections too)
        dtie = ('dseq', rows) if self.uses_dmodel(case) and not isinstance(rows, str) else None
        # property: every observed configuration against the specification
        prop = tuple(self.view(case, io[k], True) for k in self.observed())
        # third tie, also outside the hypotheses of the specification (correlated concatenations, empty domains): every observed
        # configuration (caching off / on, first evaluation / re-evaluation) returns the row set of the first one
        agree = all(self.view(case, io.get(k, 'X missing'), False) == self.view(case, io['off'], False) for k in self.observed())
        return (tie, dtie, agree), prop

    def uses_dmodel(self, case):
        return in_dfrag(case)

    def observed(self):
        return [c + s for c in self.cache_configs for s in ('', '2')]

    def tie_view(self, case, mo):
        mo, _, do = mo.partition(' DD ')
        rows = parse_rows(mo)
        if isinstance(rows, str):
            return (rows, None, True)
        drows = parse_rows(do) if do.strip() not in ('', '-') else None
        dtie = ('dseq', drows) if self.uses_dmodel(case) else None
        return (('seq', rows) if all_selected(case) else ('set', sorted(set(rows))), dtie, True)

    def prop_view(self, case, so):
        return tuple(self.view(case, so, True) for _ in self.observed())

    def known(self, case, io, mo, so):
        """signatures of the open findings of known_findings.json (the engine honours an id only if it is listed there)"""
        spec = self.view(case, so, True)
        srows = parse_rows(so)
        # C05-wildcard-retrieval: every configuration with caching DISABLED agrees with the specification; a cached evaluation
        # visited an index level holding both the wildcard and a concrete key and LOST rows (never invented one)
        if not isinstance(srows, str) and all(self.view(case, io[k], True) == spec for k in ('off', 'off2')) \
                and 'on' in self.cache_configs and io.get('mixed_level_retrieval'):
            ok = True
            for k in ('on', 'on2'):
                rows = parse_rows(io[k])
                if isinstance(rows, str) or (collections.Counter(rows) - collections.Counter(srows)):
                    ok = False
            # control: with the REFERENCE retrieval (every compatible entry) in place of IndexedCache.retrieve the cached
            # evaluations return the specified row SET - the loss is due to retrieval, not to what the caches hold
            for k in ('onref', 'onref2'):
                rows = parse_rows(io.get(k, 'X'))
                if isinstance(rows, str) or set(rows) != set(srows):
                    ok = False
            if ok:
                return 'C05-wildcard-retrieval'
        return None

    def nontrivial(self, case, io):
        rows = parse_rows(io['off'])
        if isinstance(rows, str):
            return False
        total = 1
        for k, d in case['doms']:
            total *= len(d)
        return 0 < len(set(rows)) and (len(rows) < total or case['cond'] is None)

    def stats(self, case, io):
        d = collections.Counter()
        d['vars_%d' % len(case['doms'])] += 1
        d['cond_size_%d' % min(cond_size(case['cond']), 9)] += 1
        for k, v in cond_ops(case['cond'], {}).items():
            d['op_' + k] += v
        rows = parse_rows(io['off'])
        if isinstance(rows, str):
            d['impl_' + rows.split()[1] if len(rows.split()) > 1 else 'impl_exc'] += 1
        else:
            d['rows_0' if not rows else 'rows_some'] += 1
        d['all_selected' if all_selected(case) else 'projection'] += 1
        d['cache_retrievals'] += io.get('cache_retrievals', 0)
        d['cases_with_cache_hits'] += 1 if io.get('cache_retrievals', 0) else 0
        d['form_' + case.get('form', 'set_of')] += 1
        d['objects_equal_by_value_joined'] += 1 if case.get('value_equal_join') else 0
        return d

    # ---- shrinking ------------------------------------------------------------------------------
    def shrink(self, case):
        c = case['cond']

        def with_cond(c2):
            d = dict(case)
            d['cond'] = c2
            return self.normalise(d)

        def the_in_place(c2, left_of_or=False):
            """a the(...) in condition position stays the LEFT branch of a disjunction (elsewhere it raises when it has no solution)"""
            if c2 is None:
                return True
            if c2[0] == 'sub':
                return (left_of_or or not (len(c2) > 3 and c2[3] == 'the')) and the_in_place(c2[2])
            if c2[0] == 'or':
                return the_in_place(c2[1], True) and the_in_place(c2[2])
            if c2[0] == 'and':
                return the_in_place(c2[1]) and the_in_place(c2[2])
            if c2[0] in ('not', 'forall'):
                return the_in_place(c2[1] if c2[0] == 'not' else c2[2])
            return True
        # replace the condition by a sub-condition, drop domain elements, drop heap tail, drop selections
        for sub in subconds(c):
            if sub is not c and the_in_place(sub):
                yield with_cond(sub)
        for i, (k, dom) in enumerate(case['doms']):
            if k == case.get('registry_var'):
                continue              # (a variable without a domain ranges over every object of the case)
            for j in range(len(dom)):
                if len(dom) > 0:
                    d = dict(case)
                    d['doms'] = [list(x) for x in case['doms']]
                    d['doms'][i] = [k, dom[:j] + dom[j + 1:]]
                    yield d
        if len(case['sel']) > 1:
            for j in range(len(case['sel'])):
                d = dict(case)
                d['sel'] = case['sel'][:j] + case['sel'][j + 1:]
                yield self.normalise(d)
        for r in replace_subconds(c):
            yield with_cond(r)

    def normalise(self, case):
        """recompute binders/doms after the condition or selection changed"""
        used = gen_query.cond_keys(case['cond'], set()) if case['cond'] is not None else set()
        for t in case['sel']:
            term_keys(t, used)
        d = dict(case)
        d['binders'] = [b for b in case['binders'] if b[1] in used]
        # (a universal variable whose for_all was shrunk away is an ordinary variable of what is left)
        bound = {b[1] for b in d['binders']} | forall_keys(d['cond'])
        d['binders'] += [['var', k] for k, _ in case['doms'] if k in used and k not in bound]
        # (a concatenation ranges over its own inner variable: its domain stays)
        inner = {b[2] for b in d['binders'] if b[0] in ('concat', 'concatflat')}
        d['doms'] = [x for x in case['doms'] if x[0] in used or x[0] in inner or x[0] in forall_keys(d['cond'])]
        if case.get('form') == 'entity' and len(d['sel']) != 1:
            d['form'] = 'set_of'
        return d


def concat_var_bound_before(case):
    """a conjunct to the LEFT of the first use of a concatenation already mentions the variable the concatenation ranges over: the
    library then computes the concatenation under that binding (a correlated reading), the specification over the whole domain;
    C17 speaks of a concatenation whose variables are free where it is evaluated - such cases are compared with the model only"""
    inner = {b[1]: b[2] for b in case.get('binders', []) if b[0] in ('concat', 'concatflat')}
    if not inner or case.get('cond') is None:
        return False
    seen, bad, first_use = set(), [False], set()

    def term(t, inside):
        if t[0] == 'var':
            if not inside:
                seen.add(t[1])
        elif t[0] == 'map':
            term(t[2], inside)
        elif t[0] == 'flat':
            term(t[2], inside)
        elif t[0] == 'concat':
            if t[1] not in first_use:
                first_use.add(t[1])
                if inner.get(t[1]) in seen:
                    bad[0] = True
            term(t[2], True)
        elif t[0] == 'subq':
            term(t[3], inside)

    def cond(c):
        k = c[0]
        if k == 'cmp':
            term(c[2], False), term(c[3], False)
        elif k in ('in', 'contains'):
            term(c[1], False), term(c[2], False)
        elif k == 'truth':
            term(c[1], False)
        elif k in ('and', 'or'):
            cond(c[1]), cond(c[2])
        elif k == 'not':
            cond(c[1])
        elif k in ('forall', 'sub'):
            cond(c[2])
    cond(case['cond'])
    return bad[0]


def wrap_operands(rng, c, p=0.5):
    """same(t) in place of an operand t of a comparison / membership test (t an attribute, index or call expression)"""
    k = c[0]
    w = lambda t: ['map', ['p', 0], t] if t[0] == 'map' and t[1][0] != 'p' and rng.random() < p else t
    if k == 'cmp':
        return [k, c[1], w(c[2]), w(c[3])] + c[4:]
    if k in ('in', 'contains'):
        return [k, w(c[1]), w(c[2])] + c[3:]
    if k in ('and', 'or'):
        return [k, wrap_operands(rng, c[1], p), wrap_operands(rng, c[2], p)] + c[3:]
    if k == 'not':
        return [k, wrap_operands(rng, c[1], p)] + c[2:]
    return c


def repeated_flat_element(case):
    """some parent of the case has the same element twice in the collection a flatten node of the case unnests"""
    for b in case['binders']:
        if b[0] == 'flat' and b[2][0] == 'map' and b[2][1][0] == 'f':
            f = b[2][1][1]
            for o in case['heap']:
                v = o[f]
                if isinstance(v, list) and len(set(map(str, v))) < len(v):
                    return True
    return False


def forall_keys(c):
    if c is None:
        return set()
    k = c[0]
    if k in ('and', 'or'):
        return forall_keys(c[1]) | forall_keys(c[2])
    if k == 'not':
        return forall_keys(c[1])
    if k == 'forall':
        return {c[1]} | forall_keys(c[2])
    if k == 'sub':
        return forall_keys(c[2])
    return set()


def subconds(c):
    if c is None:
        return
    yield c
    k = c[0]
    if k in ('and', 'or'):
        yield from subconds(c[1])
        yield from subconds(c[2])
    elif k == 'not':
        yield from subconds(c[1])
    elif k in ('forall', 'sub'):
        yield from subconds(c[2])


def replace_subconds(c):
    """the condition with one connective replaced by one of its operands"""
    if c is None:
        return
    k = c[0]
    if k in ('and', 'or'):
        for r in replace_subconds(c[1]):
            yield [k, r, c[2]] + c[3:]
        for r in replace_subconds(c[2]):
            yield [k, c[1], r] + c[3:]
        yield c[1]
        yield c[2]
    elif k == 'not':
        for r in replace_subconds(c[1]):
            yield ['not', r] + c[2:]
    elif k in ('forall', 'sub'):
        for r in replace_subconds(c[2]):
            yield [k, c[1], r]


class C01(QueryFamily):
    pid = 'C01'
    ordered = True
    rule = ("one variable over an explicit domain of distinct objects, random condition trees (depth <= 3 quick, <= 4 thorough) over the "
            "full public vocabulary (six comparisons either way round, in_/contains, attribute chains, indexes, method calls, "
            "expressions in condition position, and_/or_/not_ in function, operator and n-ary style, nested negation), attribute values "
            "from an alphabet that includes 0, '', (), None, False; compared as SEQUENCES; non-trivial = some but not all objects qualify; "
            "distinct by hash of the case")
    explanation = ("C01_filter is proved for all condition trees, heaps and NoDup domains over the P-model; the P-model is tied to symbolic.py "
                   "by comparing exact result sequences with caching disabled; caching enabled and re-evaluation are compared with the "
                   "specification")

    def gen(self, rng, i, tier):
        depth = 3 if tier == 'quick' else 4
        c = gen_query.gen_case(rng, nvars=1, falsy=True, neg=True, maxdepth=depth, select='all', dom_max=5, empty_dom=True)
        c['form'] = 'entity' if rng.random() < 0.8 else 'set_of'
        if not c['sel']:
            c['sel'] = [['var', 1]]
        if rng.random() < 0.08:
            # several METHOD CALLS with equal (empty) argument lists on different receivers reached from the one object: x.big(),
            # x.peer.big(), x.peer.peer.big() - each call is its own call, whatever the other calls returned for this row
            F = gen_query.F
            recv = [['var', 1], ['map', ['f', F['peer']], ['var', 1]], ['map', ['f', F['peer']], ['map', ['f', F['peer']], ['var', 1]]]]
            calls = [['truth', ['map', ['f', F['big()']], r]] for r in rng.sample(recv, rng.choice([2, 2, 3]))]
            calls = [['not', k, 'fn'] if rng.random() < 0.4 else k for k in calls]
            cond = calls[0]
            for k in calls[1:]:
                cond = [rng.choice(['and', 'or']), cond, k, rng.choice(['fn', 'op'])]
            for o in c['heap']:
                o[0] = rng.randint(0, 3)
                o[8] = o[0] >= 2
            c['cond'] = cond
        return c


class C02(QueryFamily):
    pid = 'C02'
    rule = ("1-3 variables (thorough: up to 4) with explicit domains of 1-4 objects drawn from a shared heap (self-joins, overlapping "
            "domains), conditions mentioning any subset of the variables, every selection order, projections and selected attribute "
            "expressions; rows compared as multisets when every variable is selected, as sets otherwise; non-trivial = some but not all "
            "assignments qualify; distinct by hash of the case; the THOROUGH tier first runs an exhaustive small scope: every condition with at "
            "most two and_/or_ connectives over six leaves on two variables, plain and negated, every selection, two datasets (21 672 cases)")
    explanation = ("C02 theorems over the P-model (partition invariant eval_cover); tie = exact row sequences (all variables selected) or "
                   "row sets (projections) with caching disabled; caching enabled and re-evaluation compared with the specification")

    _exh = None

    def budget(self, tier):
        if tier == 'thorough':
            if C02._exh is None:
                C02._exh = gen_query.exhaustive_small_scope()
            return len(C02._exh) + 6000
        return QueryFamily.budget(self, tier)

    def gen(self, rng, i, tier):
        if tier == 'thorough' and C02._exh is not None and i < len(C02._exh):
            return C02._exh[i]             # the exhaustive small scope first (see gen_query.exhaustive_small_scope)
        r = rng.random()
        if r < 0.2:
            return gen_query.gen_case_conj_under_disj(rng, tier)
        if r < 0.5:
            return gen_query.gen_case_dedup(rng, tier)
        if r < 0.65:
            return gen_query.gen_case_object_join(rng, tier)
        nv = rng.choice([2, 2, 3] if tier == 'quick' else [2, 3, 3, 4])
        return gen_query.gen_case(rng, nvars=nv, falsy=True, neg=True, maxdepth=3, select=rng.choice(['all', 'all', 'some']),
                                  dom_max=4 if nv < 4 else 3)


class C03(QueryFamily):
    pid = 'C03'
    rule = ("1-2 variables, every generated condition is wrapped as c / not_(c) / not_(not_(c)) with further negations at random depths "
            "inside c (also directly under another negation and through De Morgan), all six comparison operators, membership in either "
            "direction, boolean method calls and expressions in condition position; rows compared with the complement computed by the "
            "specification; non-trivial = some but not all assignments qualify")
    explanation = ("C03 theorems (generated inverse table negates and is involutive, neg is the exact complement at any depth, double negation "
                   "restores the node) are proved over Generated.v + Elab.v and re-checked against the current source on every run; the "
                   "row-level statement rests on C02's evaluator theorem; tie = exact row sequences / sets against the model")

    def gen(self, rng, i, tier):
        if rng.random() < 0.2:
            return gen_query.gen_case_negated_conjunction(rng, tier)
        nv = rng.choice([1, 1, 2])
        c = gen_query.gen_case(rng, nvars=nv, falsy=True, neg=True, maxdepth=3 if tier == 'quick' else 4, select='all', dom_max=4)
        if c['cond'] is not None:
            for _ in range(rng.choice([1, 1, 2, 2, 3])):
                c['cond'] = ['not', c['cond'], rng.choice(['fn', 'op'])]
        return c


class C19(QueryFamily):
    pid = 'C19'
    rule = ("the generators of C01/C02 with every attribute drawn from the falsy-heavy alphabet (0, '', (), None, False at least half of "
            "the time) and selections that include attribute expressions; the distribution counts how many cases route a falsy value "
            "through an operand / a selected expression; non-trivial = some but not all assignments qualify")
    explanation = ("value-position terms are never filtered in the P-model (eval_term has no truthiness test); only CTruth reads truthiness; "
                   "C19_value_position is the statement that eval_term returns every value; tie = rows against the model on the falsy alphabet")

    def gen(self, rng, i, tier):
        r = rng.random()
        if r < 0.12:
            return gen_query.gen_case_flat_scalar(rng, tier)
        if r < 0.2:
            return gen_query.gen_case_forall_expr(rng, falsy_values=True)
        if r < 0.27:
            return gen_query.gen_case_membership_disjunction(rng, tier)
        if r < 0.34:
            return gen_query.gen_case_falsy_owner(rng, tier)
        nv = rng.choice([1, 2, 2])
        c = gen_query.gen_case(rng, nvars=nv, falsy=True, neg=rng.random() < 0.5, maxdepth=2, select=rng.choice(['all', 'some']), dom_max=4)
        # make falsy values dominant
        for o in c['heap']:
            if rng.random() < 0.6:
                o[0] = 0
            if rng.random() < 0.5:
                o[2] = ''
            if rng.random() < 0.5:
                o[3] = []
            if rng.random() < 0.5:
                o[4] = rng.choice([None, 0])
            if rng.random() < 0.5:
                o[5] = False
            o[8] = o[0] >= 2
        if rng.random() < 0.3 and c['cond'] is not None:
            # operands routed through a @predicate FUNCTION used as a value (same(v) returns v): falsy results are values too
            c['cond'] = wrap_operands(rng, c['cond'])
        elif len(c['doms']) == 2 and rng.random() < 0.3:
            # ONE expression object (flag = x.f) as a bare condition AND as a selected output: as a condition it is read as a boolean
            # (also asked for its false rows, as a branch of or_), as an output it is a value - and is read again, already bound,
            # while the condition's own evaluation is suspended
            keys = [k for k, _ in c['doms']]
            k0, k1 = rng.sample(keys, 2)
            flag = ['map', ['f', gen_query.F[rng.choice(['f', 'f', 'a', 'n', 's'])]], ['var', k0]]
            other = ['cmp', rng.choice(['>', '<=', '==', '!=']), ['map', ['f', gen_query.F[rng.choice('ab')]], ['var', k1]], ['lit', rng.randint(0, 2)]]
            shape = rng.randrange(6)
            # (shapes 4, 5: the object is first an OPERAND - a value - and then, already bound, a condition)
            asval = ['cmp', rng.choice(['==', '!=']), flag, ['lit', rng.choice([0, '', None, False, 1])]]
            c['cond'] = (['or', ['truth', flag], other, 'fn'], ['or', other, ['truth', flag], 'fn'], ['and', ['truth', flag], other, 'fn'],
                         ['or', ['and', ['truth', flag], other, 'fn'], ['cmp', '==', ['map', ['f', gen_query.F['b']], ['var', k1]], ['lit', 0]], 'fn'],
                         ['and', asval, ['truth', flag], 'fn'], ['and', other, ['or', asval, ['truth', flag], 'fn'], 'fn'])[shape]
            c['sel'] = [['var', k0], ['var', k1], flag]
            rng.shuffle(c['sel'])
            c['binders'] = [['var', k] for k in keys]
            c['form'] = 'set_of'
            c['same_object'] = flag
        return c

    def stats(self, case, io):
        d = super().stats(case, io)
        d['operands_through_a_function'] += json.dumps(case['cond']).count('["p", 0]') if case.get('cond') else 0
        falsy = sum(1 for o in case['heap'] for v in o[:6] if not v)
        d['falsy_field_values'] += falsy
        d['selected_expressions'] += sum(1 for t in case['sel'] if t[0] == 'map')
        return d


class C06(QueryFamily):
    pid = 'C06'
    ordered = True
    rule = ("1-2 variables, all selected, quantifier `the` over entity / set_of descriptions with small domains so that 0, 1 and >= 2 "
            "satisfying assignments are all frequent (partition reported in the distribution); outcome = the row | MultipleSolutionFound | "
            "NoSolutionFound, first evaluation and re-evaluation, cache off and on; non-trivial = exactly one or at least two solutions")
    explanation = ("C06_the_* are proved from C02_all_selected (each satisfying assignment exactly once) and the model of The._evaluate_ "
                   "(consume, fail on the second row, fail if none); tie = outcome enum and value against the model")

    def to_coq(self, n, case):
        return f"Eval vm_compute in (run_qcase_the {n} {coq_qcase(case)})."

    def gen(self, rng, i, tier):
        return gen_query.gen_case_the(rng, tier)

    def view(self, case, rows, strict):
        return rows.strip()

    def canon(self, case, io):
        return io['off'].strip(), tuple(io[k].strip() for k in self.observed())

    def tie_view(self, case, mo):
        return mo.strip()

    def prop_view(self, case, so):
        return tuple(so.strip() for _ in self.observed())

    def nontrivial(self, case, io):
        return not io['off'].startswith('X NoSolution')

    def stats(self, case, io):
        d = collections.Counter()
        o = io['off']
        d['solutions_0' if 'NoSolution' in o else 'solutions_many' if 'Multiple' in o else 'solutions_1' if o.startswith('R') else 'other_' + o] += 1
        d['form_' + case.get('form', 'set_of')] += 1
        d['vars_%d' % len(case['doms'])] += 1
        return d


class C10(QueryFamily):
    pid = 'C10'
    rule = ("1-2 free variables and one universal variable (own non-empty domain of 1-3 objects); for_all(u, c) with c mentioning the "
            "universal variable, the free variables, both or neither, alone or combined by and_ on either side; rows compared as sets; "
            "non-trivial = some but not all bindings of the free variables qualify")
    explanation = ("the P-model mirrors ForAll._evaluate__ (one pass per universal value, intersection of the satisfying rows); C10 theorems "
                   "state the intersection lemma and the quantified reading; tie = row sets against the model")

    def gen(self, rng, i, tier):
        return gen_query.gen_case_forall(rng, tier)


class C15(QueryFamily):
    pid = 'C15'
    rule = ("1-3 variables; random sub-conditions of a random condition are wrapped as an(entity(v, c)) / an(set_of(vs, c)) and combined "
            "with & and | with other sub-queries or plain conditions; the specification reads every sub-query as its inlined condition; "
            "non-trivial = some but not all assignments qualify and at least one sub-query is present")
    explanation = ("C15_inline: a nested An(Entity/SetOf) node means what its condition means (sat / isat are defined so and the partition "
                   "invariant eval_cover covers CSub), hence by C02 the composed and the inlined query return the same row set; tie = rows "
                   "against the model")

    def gen(self, rng, i, tier):
        if rng.random() < 0.25:
            # projections over deeply nested and_/or_ (the de-duplication of rows decides what is passed on) with random
            # sub-conditions wrapped as nested queries: their operators key their duplicate checks on what the nested query selects
            # AND on what the enclosing operators require
            c = gen_query.gen_case_dedup(rng, tier)
            c['cond'] = gen_query.wrap_subs(rng, c['cond'], p=0.4)
            return c
        return gen_query.gen_case_sub(rng, tier)

    def nontrivial(self, case, io):
        return super().nontrivial(case, io) and 'sub' in cond_ops(case['cond'], {})


class C16(QueryFamily):
    pid = 'C16'
    rule = ("one parent variable over 1-4 parents whose inner collections have different lengths (empty, overlapping, repeated elements) or "
            "are scalars; flatten(parent.collection) selected alone, after or before the parent; no condition, a condition on the element, "
            "on parent and element, a disjunction, a membership test; rows compared as MULTISETS of (parent, element); non-trivial = at "
            "least two rows")
    explanation = ("C16 theorems: unnest without condition / with a condition on the element (direct structural proofs on the P-model); tie = "
                   "exact row sequences against the model")

    def budget(self, tier):
        return {'quick': 800, 'thorough': 8000, 'search': 1}.get(tier, 800)

    def gen(self, rng, i, tier):
        return gen_query.gen_case_flat(rng, tier)

    def nontrivial(self, case, io):
        rows = parse_rows(io['off'])
        return not isinstance(rows, str) and len(rows) >= 2


class C17(QueryFamily):
    pid = 'C17'
    ordered = True
    rule = ("concatenate(parent.collection) over 0-4 parents (empty, overlapping, repeated elements, scalars, all-empty, no parent) selected "
            "alone (one row: the list, compared as a sequence) or tested for membership / non-membership by an outer variable; non-trivial = "
            "the list has at least two elements or the membership query returns some but not all outer values")
    explanation = ("C17 theorems: the single row carries the concatenation in domain order and inner order; membership selects exactly the "
                   "members; tie = the list value / the row sequence against the model")

    def gen(self, rng, i, tier):
        return gen_query.gen_case_concat(rng, tier)

    def nontrivial(self, case, io):
        rows = parse_rows(io['off'])
        if isinstance(rows, str) or not rows:
            return False
        if case['sel'][0][0] == 'concat':
            return rows[0].count(',') >= 1
        return len(rows) < len(case['doms'][-1][1])


def unpermute(rows, perm):
    """rows of the variant (selection order permuted) back in the selection order of the original"""
    out = []
    for r in rows:
        cols = split_row(r)
        o = [None] * len(cols)
        for j, c in enumerate(cols):
            o[perm[j]] = c
        out.append(','.join(o))
    return out


def split_row(r):
    """split a printed row at top-level commas (tuples are printed in parentheses)"""
    cols, depth, cur = [], 0, ''
    for ch in r:
        if ch == '(':
            depth += 1
        elif ch == ')':
            depth -= 1
        if ch == ',' and depth == 0:
            cols.append(cur)
            cur = ''
        else:
            cur += ch
    cols.append(cur)
    return cols


class C18(QueryFamily):
    pid = 'C18'
    rule = ("a random query (1-3 variables, depth <= 3) and a variant obtained by a random composition of the listed rewrites: operands of "
            "and_/or_ swapped, chains re-associated or flattened (and_(a,b,c), a & (b & c), several conditions passed to the descriptor), "
            "comparisons mirrored (literal on either side), contains vs in_, variables declared and selected in another order, every domain "
            "permuted; the rows of both are compared with each other and with the specification of the ORIGINAL, as sets; non-trivial = "
            "some but not all assignments qualify and the variant differs from the original")
    explanation = ("C18_rewrite_sat (truth is invariant under every composition of the rewrites), C18_invariant / C18_domain_permutation (so "
                   "is the result set, via C02); tie = rows of the variant against the model run on the variant")

    def budget(self, tier):
        return {'quick': 600, 'thorough': 8000, 'search': 1}.get(tier, 600)

    def gen(self, rng, i, tier):
        return gen_query.gen_pair(rng, tier)

    def to_coq(self, n, case):
        return f"Eval vm_compute in (run_qpair {n} {coq_qcase(case['orig'])} {coq_qcase(case['variant'])})."

    def rows_set(self, case, s, which):
        rows = parse_rows(s)
        if isinstance(rows, str):
            return rows
        if which == 'variant':
            rows = unpermute(rows, case['perm'])
        return sorted(set(rows))

    def canon(self, case, io):
        v = case['variant']
        rows = parse_rows(io['variant']['off'])
        tie = rows if isinstance(rows, str) else (('seq', rows) if all_selected(v) else ('set', sorted(set(rows))))
        prop = tuple(self.rows_set(case, io[w][k], w) for w in ('orig', 'variant') for k in self.observed())
        return tie, prop

    def tie_view(self, case, mo):
        rows = parse_rows(mo)
        if isinstance(rows, str):
            return rows
        return ('seq', rows) if all_selected(case['variant']) else ('set', sorted(set(rows)))

    def prop_view(self, case, so):
        s = self.rows_set(case, so, 'orig')
        return tuple(s for _ in range(2 * len(self.observed())))

    def known(self, case, io, mo, so):
        spec = self.rows_set(case, so, 'orig')
        ok_off = all(self.rows_set(case, io[w][k], w) == spec for w in ('orig', 'variant') for k in ('off', 'off2'))
        if ok_off and any(io[w].get('mixed_level_retrieval') for w in ('orig', 'variant')):
            return 'C05-wildcard-retrieval'
        return None

    def nontrivial(self, case, io):
        return QueryFamily.nontrivial(self, case['orig'], io['orig']) and case['orig']['cond'] != case['variant']['cond']

    def stats(self, case, io):
        d = QueryFamily.stats(self, case['orig'], io['orig'])
        d['variant_differs'] += 1 if case['orig']['cond'] != case['variant']['cond'] else 0
        return d

    def shrink(self, case):
        return []

    def within_hypotheses(self, case):
        return QueryFamily.within_hypotheses(self, case['orig'])


class C05(QueryFamily):
    pid = 'C05'
    rule = ("a mixture of every query shape of the family (joins over 1-3 variables with projections, disjunctions over equal and different "
            "variable sets, negation, for_all, nested sub-queries, flatten, concatenate); each case is evaluated twice with caching "
            "disabled and twice with caching enabled on fresh query objects; row sets (row multisets when all variables are selected) of "
            "all four runs must agree with each other and with the specification; the distribution reports how many cached runs actually "
            "took the cached path (retrieval count); non-trivial = some rows and at least one cache retrieval")
    explanation = ("C05_memo_transparent_partial is proved for the abstract memo; the concrete index is C20; the cached path of symbolic.py is "
                   "tied by correspondence only (stated in the level note); tie = caching-disabled rows against the P-model")

    def gen(self, rng, i, tier):
        r = rng.random()
        if r < 0.18:
            # literal-free joins over three variables: literal ids in the cache keys would otherwise hide partial coverage; all
            # variables selected, or a projection (replayed rows then pass the de-duplication of the operators above them)
            return gen_query.gen_case(rng, nvars=3, falsy=False, neg=rng.random() < 0.3, maxdepth=3, select=rng.choice(['all', 'some']),
                                      dom_max=3, p_lit=0.0)
        if r < 0.3:
            return gen_query.gen_case_join(rng, tier)
        if r < 0.4:
            return gen_query.gen_case_disjunction_chain(rng, tier)
        if r < 0.5:
            c = gen_query.gen_case(rng, nvars=rng.choice([1, 2, 2, 3, 3]), falsy=True, neg=True, maxdepth=3,
                                   select=rng.choice(['all', 'some']), dom_max=4)
            if c['doms'] and rng.random() < 0.35:
                # one variable WITHOUT a domain: it ranges over the registry, i.e. over every object of the case (constructed under
                # the caching configuration the case is evaluated under)
                d = rng.choice(c['doms'])
                d[1] = list(range(len(c['heap'])))
                c['registry_var'] = d[0]
            return c
        if r < 0.63:
            return gen_query.gen_case_forall(rng, tier)
        if r < 0.78:
            return gen_query.gen_case_sub(rng, tier)
        if r < 0.82:
            return gen_query.gen_case_flat(rng, tier)
        if r < 0.96:
            # the flattened expression used by a disjunction only: the comparator's cache must be keyed per ELEMENT
            return gen_query.gen_case_flat(rng, tier, cond_only=True)
        return gen_query.gen_case_concat(rng, tier)

    def nontrivial(self, case, io):
        rows = parse_rows(io['off'])
        return not isinstance(rows, str) and len(rows) > 0 and io.get('cache_retrievals', 0) > 0


class C11(QueryFamily):
    pid = 'C11'
    ordered = False
    rule = ("rules infer(entity(H(h0=e0, ..., hn=en), body)) built in rule mode over 1-3 rule variables: the constructor arguments are "
            "rule variables, attribute chains / indexes / method calls over them and constants (0, '', None, False included), in any "
            "order, and together mention every rule variable; bodies: random condition trees (conjunction, disjunction over equal and "
            "different variable sets, negation, none at all, unsatisfiable); observed: for every constructed object its class, that it is "
            "a NEW object, and its field values with heap objects compared by identity; the rows are compared as sequences with the model "
            "and as MULTISETS with the specification (one instance per satisfying assignment), caching off and on, evaluated twice; "
            "non-trivial = some but not all assignments satisfy the body")
    explanation = ("C11_one_per_assignment / C11_fields_from_one_assignment are proved over the P-model (selected expressions = constructor "
                   "arguments, bound one after the other); tie = constructed field tuples against the model")

    def budget(self, tier):
        return {'quick': 400, 'thorough': 6000, 'search': 1}.get(tier, 400)

    def gen(self, rng, i, tier):
        nv = rng.choice([1, 1, 2, 2, 3])
        c = gen_query.gen_case(rng, nvars=nv, falsy=True, neg=True, maxdepth=rng.choice([1, 2, 3]), select='all', dom_max=4 if nv < 3 else 3)
        if rng.random() < 0.12:
            c['cond'] = None
        keys = [k for k, _ in c['doms']]
        g = gen_query.Gen(rng, nv)
        g.keys = keys
        head = []
        for k in keys:                                   # every rule variable is mentioned by the head
            r = rng.random()
            if r < 0.6:
                head.append(['var', k])
            else:
                head.append(['map', ['f', gen_query.F[rng.choice(['a', 'b', 's', 'n', 'f', 'items', 'peer'])]], ['var', k]])
        while len(head) < 4 and rng.random() < 0.55:
            r = rng.random()
            if r < 0.3:
                head.append(['lit', rng.choice([0, '', None, False, 1, 'u', [1, 2]])])
            elif r < 0.7:
                head.append(['map', ['f', gen_query.F[rng.choice(['a', 'b', 's', 'n', 'f', 'items', 'peer', 'big()'])]], ['var', rng.choice(keys)]])
            elif r < 0.85:
                head.append(['map', ['i', rng.randrange(2)], ['map', ['f', gen_query.F['pair']], ['var', rng.choice(keys)]]])
            else:
                head.append(['var', rng.choice(keys)])
        rng.shuffle(head)
        c['sel'] = head[:4]
        if rng.random() < 0.3:
            # a NESTED constructor argument W(w=t): the registered W instances whose field equals t (0-2 of them per value)
            objs_ = sorted({i for _, d in c['doms'] for i in d})
            if rng.random() < 0.6:
                c['wrappers'] = [rng.randint(0, 3) for _ in range(rng.randint(1, 5))]
                inner = g.int_term(allow_lit=False)
                while inner[0] == 'flat' or 'big' in json.dumps(inner):
                    inner = g.int_term(allow_lit=False)
            else:
                c['wrappers'] = [{'o': rng.choice(objs_)} for _ in range(rng.randint(1, 5))] if objs_ else [0]
                inner = ['var', rng.choice(keys)] if rng.random() < 0.7 else ['map', ['f', gen_query.F['peer']], ['var', rng.choice(keys)]]
            ik = set()
            term_keys(inner, ik)
            # the variable of the nested argument is, half of the time, mentioned nowhere else in the head
            pos = [j for j, t in enumerate(c['sel']) if t == ['var', min(ik)]] if rng.random() < 0.5 else []
            j = pos[0] if pos else rng.randrange(len(c['sel']))
            c['sel'][j] = ['nest', max(keys) + 10, inner]
            if len(keys) >= 2 and rng.random() < 0.5:
                # the body is a disjunction whose second branch holds for several values of the variable of the nested argument
                # under one binding of the others, and that variable occurs nowhere else in the head
                y = min(ik)
                x = rng.choice([k for k in keys if k != y])
                fa = lambda k: ['map', ['f', gen_query.F[rng.choice('ab')]], ['var', k]]
                c['cond'] = ['or', ['cmp', rng.choice(['==', '!=', '<']), fa(x), fa(y)],
                             ['cmp', rng.choice(['>=', '<=', '!=']), fa(y), ['lit', rng.randint(0, 2)]], rng.choice(['fn', 'op'])]
                c['sel'] = [t if (t[0] == 'nest' or y not in term_keys(t, set())) else ['map', ['f', gen_query.F['s']], ['var', x]]
                            for t in c['sel']]
        # make sure the shuffle/truncation kept every variable mentioned
        def mention_counts():
            cnt = collections.Counter()
            for t in c['sel']:
                for k in term_keys(t, set()):
                    cnt[k] += 1
            return cnt
        for _ in range(8):
            cnt = mention_counts()
            missing = [k for k in keys if cnt[k] == 0]
            if not missing:
                break
            # put the missing variable where no other variable loses its only mention (a constant, or a variable mentioned twice)
            free = [j for j, t in enumerate(c['sel']) if t[0] != 'nest' and all(cnt[k] > 1 for k in term_keys(t, set()))]
            if free:
                c['sel'][rng.choice(free)] = ['var', missing[0]]
            elif len(c['sel']) < 4:
                c['sel'].append(['var', missing[0]])
            else:
                c['sel'][0] = ['var', missing[0]]
        if rng.random() < 0.15 and not any(t[0] == 'nest' for t in c['sel']):
            # ONE expression object is the bare boolean condition of the body (alone, or the left-most conjunct) and a field of the head
            k0 = rng.choice(keys)
            flag = ['map', ['f', gen_query.F[rng.choice(['f', 'f', 'a', 'n', 's'])]], ['var', k0]]
            rest = g.cond(rng.randint(0, 1)) if rng.random() < 0.5 else None
            c['cond'] = ['truth', flag] if rest is None else ['and', ['truth', flag], rest, 'fn']
            # (at most four constructor arguments; together they still mention EVERY rule variable)
            from qcase import term_keys as _tk
            others = [t for t in c['sel'] if t != flag]
            chosen = []
            for k in keys:
                if k == k0 or any(k in _tk(t, set()) for t in chosen):
                    continue
                chosen.append(next((t for t in others if k in _tk(t, set())), ['var', k]))
            chosen += [t for t in others if t not in chosen]
            c['sel'] = chosen[:3] + [flag]
            rng.shuffle(c['sel'])
            c['same_object'] = flag
            for o in c['heap']:
                o[5] = rng.random() < 0.5
        c['binders'] = [['var', k] for k in keys]
        c['form'] = 'infer'
        c['infer'] = True
        # how the head is written: keyword arguments, positional arguments (to a class whose positional parameters are
        # interleaved with inherited and own keyword-only ones), or a mix
        c['head_style'] = rng.choice(['kw', 'kw', 'pos', 'mixed'])
        if c['head_style'] == 'kw' and rng.random() < 0.3:
            c['falsy_head'] = True            # the constructed class has __len__ == 0: its instances are falsy objects
        elif c['head_style'] == 'kw' and rng.random() < 0.4:
            c['unset_head'] = True            # the fields of the constructed class default to 'unset': a None argument is a value
            lits = [j for j, t in enumerate(c['sel']) if t[0] == 'lit']
            if lits and rng.random() < 0.7:
                c['sel'][rng.choice(lits)] = ['lit', None]
            elif len(c['sel']) < 4 and rng.random() < 0.7:
                c['sel'].insert(rng.randrange(len(c['sel']) + 1), ['lit', None])
        return c

    def within_hypotheses(self, case):
        mentioned = set()
        for t in case['sel']:
            term_keys(t, mentioned)
        return all(k in mentioned for k, _ in case['doms'])

    def view(self, case, rows, strict):
        rows = parse_rows(rows)
        if isinstance(rows, str):
            return rows
        return ('multiset', sorted(rows))

    @staticmethod
    def _tie(case, r):
        # (a nested constructor argument is modelled as one more conjunct of the body: the ORDER of the instances is not modelled)
        if isinstance(r, str):
            return r
        # (so is a head mixing positional and keyword arguments: the library evaluates the keyword ones first)
        unordered = any(t[0] == 'nest' for t in case['sel']) or case.get('head_style') == 'mixed'
        return ('multiset', sorted(r)) if unordered else ('seq', r)

    def canon(self, case, io):
        return self._tie(case, parse_rows(io['off'])), tuple(self.view(case, io[k], True) for k in self.observed())

    def tie_view(self, case, mo):
        return self._tie(case, parse_rows(mo.partition(' DD ')[0]))

    def nontrivial(self, case, io):
        rows = parse_rows(io['off'])
        if isinstance(rows, str):
            return False
        total = 1
        for k, d in case['doms']:
            total *= len(d)
        return 0 < len(rows) < total

    def stats(self, case, io):
        d = super().stats(case, io)
        for t in case['sel']:
            d['head_arg_' + t[0]] += 1
            if t[0] == 'lit' and not t[1]:
                d['head_falsy_constant'] += 1
        d['head_written_' + case.get('head_style', 'kw')] += 1
        rows = parse_rows(io['off'])
        if not isinstance(rows, str):
            d['instances_built'] += len(rows)
        return d

    def normalise(self, case):
        d = QueryFamily.normalise(self, case)
        d['form'] = 'infer'
        return d
