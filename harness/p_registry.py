"""C14 — a variable without a domain ranges over exactly the live registry of instances."""
import re, collections, copy


def is_sub(classes, c, T):
    while c is not None:
        if c == T:
            return True
        c = classes[c]['parent']
    return False


class C14:
    pid = 'C14'
    targets = ['theories/PredForm.vo', 'theories/Registry.vo']
    header = "From EQL Require Import Base PredForm Registry.\nOpen Scope string_scope."
    impl_script = 'impl_registry.py'
    rule = ("a class forest of 2-6 classes created for the case (dataclass and hand-written __init__, decorated subclasses, UNDECORATED "
            "subclasses with and without their own __init__, up to 4 levels deep) and a history of 4-14 (thorough: up to 30) steps: concrete "
            "construction of any class in positional / keyword / default style, symbolic construction (plain, keyword, From(domain), "
            "rule mode), rule inference creating 0-3 instances, registry clearing, and no-domain queries of any class - complete ones and ones abandoned after "
            "0-2 results or by `the` raising, with the variable alone or under a condition every instance satisfies; every query result "
            "is compared BY IDENTITY and in order with the registry model, and as a multiset with the harness's own log of constructed "
            "objects; after every step the number of initialisations run so far is compared too; non-trivial = some query returns some "
            "but not all of the objects constructed so far")
    explanation = ("C14_registry (query = the logged concrete constructions of T and its subclasses since the last clearing, each once) is "
                   "proved for all histories by an invariant relating the registry model to the log; C14_symbolic_inert: symbolic "
                   "construction leaves registry and initialisation count unchanged; tie = every observation against the registry model")

    def budget(self, tier):
        return {'quick': 300, 'thorough': 5000, 'search': 1}.get(tier, 300)

    def gen(self, rng, i, tier):
        ncls = rng.randint(2, 6)
        classes = []
        for c in range(ncls):
            parent = None if c == 0 or rng.random() < 0.2 else rng.randrange(c)
            if parent is None:
                style = rng.choice(['dataclass', 'manual'])
            else:
                ps = classes[parent]['family']
                style = rng.choice(['dataclass', 'manual', 'plain']) if ps == 'dataclass' else rng.choice(['manual', 'plain'])
            family = style if parent is None else ('manual' if style == 'manual' else classes[parent]['family'])
            classes.append(dict(parent=parent, style=style, family=family, decorated=(parent is None or rng.random() < 0.5),
                                extra_field=0))
        n = rng.randint(4, 14 if tier != 'thorough' else 30)
        ops = []
        made = 0
        for _ in range(n):
            r = rng.random()
            c = rng.randrange(ncls)
            if r < 0.38:
                ops.append(['concrete', c, rng.choice(['pos', 'kw', 'kw2', 'default'])])
                made += 1
            elif r < 0.5:
                ops.append(['symbolic', c, rng.choice(['plain', 'kw', 'from', 'rule'])])
            elif r < 0.62:
                k = rng.randint(0, 3)
                ops.append(['infer', c, k])
                made += k
            elif r < 0.66:
                ops.append(['clear'])
            elif r < 0.70:
                # ONE symbolic block: a no-domain query is evaluated in it, then - still inside the block - a class is constructed
                ops.append(['query_in_block', c])
                ops.append(['symbolic_in_block', rng.randrange(ncls), rng.choice(['plain', 'kw'])])
            elif r < 0.8:
                ops.append(['qtake', c, rng.randint(0, 2), rng.choice(['an', 'an', 'the']), rng.random() < 0.5])
            else:
                ops.append(['query', c, rng.random() < 0.4] + (['early'] if rng.random() < 0.35 else []))
        # every history ends by querying every root class
        for c in range(ncls):
            if classes[c]['parent'] is None:
                ops.append(['query', c])
        return dict(classes=classes, ops=ops)

    def to_coq(self, n, case):
        ct = "[" + "; ".join("None" if c['parent'] is None else f"Some {c['parent']}" for c in case['classes']) + "]"
        o = []
        for op in case['ops']:
            k = op[0]
            o.append({'concrete': lambda: f"OConcrete {op[1]}", 'symbolic': lambda: f"OSymbolic {op[1]}",
                      'query_in_block': lambda: f"OQuery {op[1]}", 'symbolic_in_block': lambda: f"OSymbolic {op[1]}",
                      'infer': lambda: f"OInfer {op[1]} {op[2]}", 'clear': lambda: "OClear", 'query': lambda: f"OQuery {op[1]}",
                      'qtake': lambda: f"OQueryTake {op[1]} {2 if op[3] == 'the' else op[2]}"}[k]())
        return f"Eval vm_compute in (run_rcase {n} {ct} [{'; '.join(o)}])."

    def split(self, s):
        m = re.match(r'M(.*?) S(.*)$', s + ' ')
        return m.group(1).split(), m.group(2).split(), True

    @staticmethod
    def unordered(obs):
        out = []
        for o in obs:
            m = re.match(r'\[(.*)\]n(\d+)$', o)
            if not m:
                out.append(o)
                continue
            out.append((sorted(m.group(1).split(',')) if m.group(1) else [], m.group(2)))
        return out

    def canon(self, case, io):
        obs = io.split() if isinstance(io, str) and not io.startswith('X') else [io]
        return obs, obs

    def norm_the(self, case, obs, full):
        """`the` over the registry: one instance -> that instance, none -> nothing, several -> 'many' (what was delivered before the
        abort is not observable); rewrite the model's / reference's k = 2 observation accordingly"""
        out = []
        for op, o in zip(case['ops'], obs):
            if op[0] == 'qtake' and op[3] == 'the':
                m = re.match(r'\[(.*)\]n(\d+)$', o)
                items = [x for x in m.group(1).split(',') if x] if m else None
                if items is not None and len(items) >= 2:
                    o = '[many]n' + m.group(2)
            out.append(o)
        return out

    def tie_view(self, case, mo):
        from p_history import Expect
        exp = self.norm_the(case, mo, False)
        return Expect(lambda io: len(io) == len(exp) and all(a == b for a, b in zip(io, exp)), exp)

    def prop_view(self, case, so):
        from p_history import Expect
        ops = case['ops']

        def ok(io):
            if len(io) != len(so):
                return False
            for op, o, s_ in zip(ops, io, so):
                mo, ms = re.match(r'\[(.*)\]n(\d+)$', o), re.match(r'\[(.*)\]n(\d+)$', s_)
                if not mo or not ms or mo.group(2) != ms.group(2):
                    return False
                a = [x for x in mo.group(1).split(',') if x]
                b = [x for x in ms.group(1).split(',') if x]
                if op[0] == 'qtake':
                    if op[3] == 'the':
                        if (a == ['many']) != (len(b) >= 2) or (a != ['many'] and sorted(a) != sorted(b)):
                            return False
                    elif not (set(a) <= set(b) and len(set(a)) == len(a) == min(op[2], len(b))):
                        return False
                elif sorted(a) != sorted(b):
                    return False
            return True
        return Expect(ok, so)

    def known(self, case, io, mo, so):
        return None

    def nontrivial(self, case, io):
        if not isinstance(io, str) or io.startswith('X'):
            return False
        made = 0
        for op, o in zip(case['ops'], io.split()):
            if op[0] == 'concrete':
                made += 1
            elif op[0] == 'infer':
                made += op[2]
            elif op[0] in ('query', 'query_in_block'):
                k = len([x for x in o[1:o.index(']')].split(',') if x])
                if 0 < k < made:
                    return True
        return False

    def stats(self, case, io):
        d = collections.Counter()
        for op in case['ops']:
            d['op_' + op[0]] += 1
            if (op[0] == 'qtake' and len(op) > 4 and op[4]) or (op[0] == 'query' and len(op) > 2 and op[2]):
                d['queries_under_a_condition_every_instance_satisfies'] += 1
            if op[0] in ('concrete', 'symbolic'):
                d[op[0] + '_' + op[2]] += 1
        for c in case['classes']:
            d['class_' + c['style'] + ('' if c['decorated'] else '_undecorated')] += 1
        depth = 0
        for c in range(len(case['classes'])):
            k, x = 0, c
            while case['classes'][x]['parent'] is not None:
                x = case['classes'][x]['parent']
                k += 1
            depth = max(depth, k)
        d['hierarchy_depth_%d' % depth] += 1
        d['steps'] += len(case['ops'])
        d['queries_declared_on_an_empty_registry_evaluated_later'] += sum(1 for op in case['ops'] if op[0] == 'query' and len(op) > 3)
        if isinstance(io, str) and io.startswith('X'):
            d['impl_exception'] += 1
        return d

    def shrink(self, case):
        for j in range(len(case['ops'])):
            d = copy.deepcopy(case)
            d['ops'].pop(j)
            yield d
