"""C12 — a rule tree selects, per match, the conclusion ripple-down rules prescribe."""
import re, collections, copy


def coq_cond(c):
    return "[" + "; ".join(f"({b}, {v})" for b, v in c) + "]"


def coq_node(n):
    body = "BNil"
    for k, c in reversed(n['body']):
        body = f"BCons {'KRef' if k == 'ref' else 'KAlt'} ({coq_node(c)}) ({body})"
    return f"RN {coq_cond(n['cond'])} {n['tag']} ({body})"


def shape(n):
    return '(' + ' '.join(k[0] + shape(c) for k, c in n['body']) + ')'


def depth(n):
    return 1 + max([depth(c) for _, c in n['body']] or [0])


def pair_dom(two):
    """the matches of a two-variable rule: the assignments (x, y) in product order, their bits = x's two, y's two, the join bit"""
    return [[i * 100 + j, [bi[0], bi[1], bj[2], bj[3], 1 if bi[0] == bj[2] else 0]] for i, bi in two['xs'] for j, bj in two['ys']]


def nodes(n):
    yield n
    for _, c in n['body']:
        yield from nodes(c)


class C12:
    pid = 'C12'
    targets = ['theories/RuleTree.vo', 'theories/RuleTree_Grown.vo']
    header = "From EQL Require Import Base RuleTree RuleTree_Grown.\nOpen Scope string_scope."
    impl_script = 'impl_rules.py'
    rule = ("random rule programs over one rule variable: a base rule and, nested to depth <= 3 (thorough: <= 5) with 0-3 statements "
            "per block in any order, `with refinement(...)` and `with alternative(...)` blocks under the base, under refinements and "
            "under alternatives (chains of alternatives, several refinements of one branch, alternatives of refinements, refinements "
            "of alternatives); every block starts with Add(views, Label(item, tag)); branch conditions are conjunctions of 1-2 "
            "attribute equalities; data = 4-16 items (all 4-bit vectors or a random sample, random order); compared: the operator tree "
            "the implementation holds after the build (left/right from the conditions root) with the builder model and with the "
            "intended tree, and the (item, conclusion) rows of three consecutive evaluations - in 40 % of the cases AFTER an evaluation that was abandoned after 1-12 results -, caching off and on, with the model's "
            "(as sequences) and with the ripple-down-rule interpreter's (as multisets); a quarter of the programs are followed by 1-3 LATER SESSIONS (the rule re-entered, one refinement / alternative each, evaluated in between: a later refinement refines the whole tree); non-trivial = at least two different "
            "conclusions are produced and some item matches no branch or a refinement overrides a conclusion")
    explanation = ("C12_rdr (the tree the builder model assembles evaluates to the ripple-down-rule conclusion, for every program) and "
                   "C12_shape are proved in Coq; tie = tree shape and row sequence against the builder / evaluation model")

    def budget(self, tier):
        return {'quick': 300, 'thorough': 5000, 'search': 1}.get(tier, 300)

    def gen(self, rng, i, tier):
        counter = [0]
        maxd = rng.choice([1, 2, 2, 3]) if tier != 'thorough' else rng.choice([2, 3, 4, 5])

        def gen_node(d):
            cond = [[b, rng.randint(0, 1)] for b in sorted(rng.sample(range(4), rng.choice([1, 1, 1, 2])))]
            counter[0] += 1
            n = dict(cond=cond, tag=counter[0], body=[])
            if d > 0 and counter[0] < 14:
                for _ in range(rng.choice([0, 1, 1, 2, 2, 3])):
                    n['body'].append([rng.choice(['ref', 'alt']), gen_node(d - 1)])
            return n
        prog = gen_node(maxd)
        items = [[i_, [int(ch) for ch in f'{i_:04b}']] for i_ in range(16)]
        if rng.random() < 0.4:
            items = rng.sample(items, rng.randint(4, 12))
        rng.shuffle(items)
        case = dict(prog=prog, dom=items)
        if rng.random() < 0.4:
            # the tree is grown: the base block is written in several `with rule_mode(query)` blocks, the rule evaluated in between.
            # (re-entering attaches at the conditions root: the same program as long as that root is still the base rule, or only
            #  alternatives are added at the top afterwards)
            body = prog['body']
            cand = [0] + [j for j in range(1, len(body)) if all(k == 'alt' for k, _ in body[j:])]
            case['splits'] = sorted(set(rng.sample(cand, min(len(cand), rng.choice([1, 1, 2])))))
        if rng.random() < 0.25:
            # LATER SESSIONS: after the program above (and an evaluation) the rule is re-entered 1-3 times, ONE further statement
            # per `with rule_mode(query)` session - a refinement then refines the WHOLE tree built so far, an alternative applies
            # where nothing fired (RuleTree_Grown.grow / sel_grown, C12_grown_sessions)
            case.pop('splits', None)
            case['later'] = [[rng.choice(['ref', 'ref', 'alt']), gen_node(rng.choice([0, 0, 1]))] for _ in range(rng.randint(1, 3))]
        elif rng.random() < 0.3:
            # TWO rule variables: a match is an assignment (x, y).  Bits 0-1 are attributes of x, 2-3 of y, bit 4 is the join
            # x.b0 == y.b2; the base rule mentions both variables, so every branch is decided per assignment
            # (EVERY branch condition mentions both variables - a conclusion is built once per row, from the first value of a variable
            #  the row leaves open: a branch that fires on a row binding only x concludes for one y, which is not what "per assignment"
            #  says and not what this check claims)
            def both():
                bx, by = rng.choice([0, 1]), rng.choice([2, 3])
                return rng.choice([[[4, rng.randint(0, 1)]], [[bx, rng.randint(0, 1)], [by, rng.randint(0, 1)]],
                                   [[bx, rng.randint(0, 1)], [4, rng.randint(0, 1)]], [[by, rng.randint(0, 1)], [4, rng.randint(0, 1)]]])

            def regen(n, free):
                n['cond'] = [[b, rng.randint(0, 1)] for b in sorted(rng.sample(range(5), rng.choice([1, 1, 2])))] if free else sorted(both())
                for _, c in n['body']:
                    regen(c, free)
            if rng.random() < 0.5:
                regen(prog, False)
            else:
                # ... or the base rule STARTS with the join (its first conjunct binds both variables in every row, true or false) and
                # the other conditions are free to mention either variable alone
                regen(prog, True)
                prog['cond'] = [[4, rng.randint(0, 1)]] + ([[rng.randrange(4), rng.randint(0, 1)]] if rng.random() < 0.7 else [])
            allx = [[i_, [i_ >> 1 & 1, i_ & 1, 0, 0]] for i_ in range(4)]
            ally = [[i_, [0, 0, i_ >> 1 & 1, i_ & 1]] for i_ in range(4)]
            xs = rng.sample(allx, rng.randint(2, 4))
            ys = rng.sample(ally, rng.randint(2, 4))
            case['two'] = dict(xs=xs, ys=ys)
            case['dom'] = pair_dom(case['two'])
            case.pop('splits', None)
        if rng.random() < 0.4:
            # the first evaluation is abandoned after 1-12 results (the three complete evaluations that are compared come after it)
            case['abandon'] = rng.randint(1, 12)
        return case

    def to_coq(self, n, case):
        dom = "[" + "; ".join(f"({i}, [{'; '.join(str(b) for b in bits)}])" for i, bits in case['dom']) + "]"
        if case.get('later'):
            later = "BNil"
            for k, c in reversed(case['later']):
                later = f"BCons {'KRef' if k == 'ref' else 'KAlt'} ({coq_node(c)}) ({later})"
            return f"Eval vm_compute in (run_gcase {n} ({coq_node(case['prog'])}) ({later}) {dom})."
        return f"Eval vm_compute in (run_tcase {n} ({coq_node(case['prog'])}) {dom})."

    def split(self, s):
        m = re.match(r'M (\S+) ?(.*?) S (\S+) ?(.*)$', s)
        return (m.group(1), m.group(2).strip()), (m.group(3), m.group(4).strip()), True

    ROWS = ('off', 'off2', 'off3', 'on', 'on2', 'on3')

    def canon(self, case, io):
        if not isinstance(io, dict):
            return io, io
        rows = io.get('off')
        if case.get('two') and isinstance(rows, str) and not rows.startswith('X'):
            rows = sorted(rows.split(';'))           # two rule variables: the ORDER of the matches is not modelled
        tie = (io.get('tree_off'), io.get('tree_on'), rows)
        prop = (io.get('tree_off'),) + tuple(sorted(io.get(k, 'X missing').split(';')) if not io.get(k, 'X').startswith('X') else io.get(k)
                                             for k in self.ROWS)
        return tie, prop

    def tie_view(self, case, mo):
        return (mo[0], mo[0], sorted(mo[1].split(';')) if case.get('two') else mo[1])

    def prop_view(self, case, so):
        return (so[0],) + tuple(sorted(so[1].split(';')) for _ in self.ROWS)

    def known(self, case, io, mo, so):
        return None

    def nontrivial(self, case, io):
        if not isinstance(io, dict) or io.get('off', 'X').startswith('X'):
            return False
        rows = [r for r in io['off'].split(';') if r]
        tags = {r.split(':')[1] for r in rows}
        return len(tags) >= 2 and (len(rows) < len(case['dom']) or any(k == 'ref' for n in nodes(case['prog']) for k, _ in n['body']))

    def stats(self, case, io):
        d = collections.Counter()
        p = case['prog']
        d['depth_%d' % depth(p)] += 1
        if case.get('abandon'):
            d['after_an_abandoned_evaluation'] += 1
        if case.get('two'):
            d['two_rule_variables'] += 1
        if case.get('splits') is not None:
            d['grown_after_evaluation'] += 1
            d['grown_in_%d_blocks' % (len(case['splits']) + 1)] += 1
        if case.get('later'):
            d['later_sessions_one_statement_each'] += len(case['later'])
            d['later_refinements_of_the_whole_tree'] += sum(1 for k, _ in case['later'] if k == 'ref')
        ns = list(nodes(p))
        d['branches'] += len(ns)
        for n in ns:
            ks = [k for k, _ in n['body']]
            d['refinements'] += ks.count('ref')
            d['alternatives'] += ks.count('alt')
            if ks.count('ref') >= 2:
                d['blocks_with_several_refinements'] += 1
            if ks.count('alt') >= 2:
                d['blocks_with_several_alternatives'] += 1
        for k, c in p['body']:
            for k2, _ in c['body']:
                d[f'{k2}_under_{k}'] += 1
        if isinstance(io, dict) and not io.get('off', 'X').startswith('X'):
            rows = [r for r in io['off'].split(';') if r]
            d['rows'] += len(rows)
            d['items_without_conclusion'] += len(case['dom']) - len(rows)
        else:
            d['impl_exception'] += 1
        return d

    def shrink(self, case):
        # drop a statement anywhere, drop an item, drop a conjunct
        def paths(n, path):
            for j, (k, c) in enumerate(n['body']):
                yield path + [j]
                yield from paths(c, path + [j])
        for path in paths(case['prog'], []):
            d = copy.deepcopy(case)
            n = d['prog']
            for j in path[:-1]:
                n = n['body'][j][1]
            n['body'].pop(path[-1])
            if d.get('splits') is not None:
                nb = len(d['prog']['body'])
                d['splits'] = sorted({min(j, nb) for j in d['splits']
                                      if j == 0 or all(k == 'alt' for k, _ in d['prog']['body'][min(j, nb):])})
            yield d
        if case.get('splits') is not None:
            d = copy.deepcopy(case)
            d['splits'] = None
            yield d
        for j in range(len(case.get('later') or [])):
            d = copy.deepcopy(case)
            d['later'].pop(j)
            yield d
            if case['later'][j][1]['body']:
                d = copy.deepcopy(case)
                d['later'][j][1]['body'] = []
                yield d
        if case.get('abandon'):
            d = copy.deepcopy(case)
            d['abandon'] = case['abandon'] - 1
            yield d
        if case.get('two'):
            for side in ('xs', 'ys'):
                for j in range(len(case['two'][side])):
                    if len(case['two'][side]) > 1:
                        d = copy.deepcopy(case)
                        d['two'][side].pop(j)
                        d['dom'] = pair_dom(d['two'])
                        yield d
            return
        for j in range(len(case['dom'])):
            if len(case['dom']) > 1:
                d = copy.deepcopy(case)
                d['dom'].pop(j)
                yield d
