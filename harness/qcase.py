"""Query cases: one JSON description rendered (a) as Gallina text and (b) as live EQL objects.

value  ::= int | true/false | null | "str" | [atom, ...] (a tuple) | {"o": heap index};  an element of a tuple may itself be a
           tuple of ints (one level of nesting: the field `groups`)
term   ::= ["lit", value] | ["var", key] | ["map", ["f", field_index] | ["i", k], term] | ["flat", key, term]
cond   ::= ["cmp", op, term, term] | ["in", item, container] | ["contains", container, item] | ["truth", term]
         | ["and", cond, cond, style] | ["or", cond, cond, style] | ["not", cond, style]
         | ["forall", key, cond] | ["sub", [term...], cond]
case   ::= {"heap": [object...], "doms": [[key, [heap index...]]...], "binders": [["var", key] | ["flat", key, term]...],
            "sel": [term...], "cond": cond | null, "form": "entity" | "set_of"}
object ::= list of field values in FIELD order
"""

FIELDS = ['a', 'b', 's', 'items', 'n', 'f', 'pair', 'peer', 'big()', 'groups', 'dmap']      # index = field id in the Coq heap
OPS = ['==', '!=', '<', '<=', '>', '>=']
COQ_OP = {'==': 'Eq', '!=': 'Ne', '<': 'Lt', '<=': 'Le', '>': 'Gt', '>=': 'Ge'}


# ------------------------------------------------------------------------------------------------ Gallina
def coq_atom(v):
    if isinstance(v, bool):
        return f"ABool {'true' if v else 'false'}"
    if isinstance(v, int):
        return f"AInt ({v})%Z"
    if v is None:
        return "ANone"
    if isinstance(v, str):
        return f'AStr "{v}"'
    if isinstance(v, dict):
        return f"AObj {v['o']}"
    if isinstance(v, list) and all(isinstance(x, int) and not isinstance(x, bool) for x in v):
        return "ATup [" + "; ".join(f"({x})%Z" for x in v) + "]"
    raise ValueError(v)


def coq_val(v):
    if isinstance(v, list):
        return "VTup [" + "; ".join(coq_atom(x) for x in v) + "]"
    return f"VA ({coq_atom(v)})"


def coq_term(t):
    k = t[0]
    if k == 'lit':
        return f"TLit ({coq_val(t[1])})"
    if k == 'var':
        return f"TVar {t[1]}"
    if k == 'map':
        if t[1][0] == 'p':
            return coq_term(t[2])          # same(t): a @predicate function returning its argument, used as a value: the value of t
        m = f"MField {t[1][1]}" if t[1][0] == 'f' else f"MIdx {t[1][1]}"
        return f"TMap ({m}) ({coq_term(t[2])})"
    if k == 'flat':
        return f"TFlat {t[1]} ({coq_term(t[2])})"
    if k == 'concat':
        return f"TConcat {t[1]} ({coq_term(t[2])})"
    raise ValueError(t)


def coq_cond(c):
    k = c[0]
    if k == 'cmp':
        # an operand  ['subq', i, cond, term]  is  term  read off the sub-query  an(entity(variable i, cond)):  the operand is
        # restricted to the sub-query's solutions (C15): the comparison and-ed with the sub-query as a condition
        subs = [t for t in (c[2], c[3]) if t[0] == 'subq']
        if subs:
            l, r = (t[3] if t[0] == 'subq' else t for t in (c[2], c[3]))
            out = f"SCmp {COQ_OP[c[1]]} ({coq_term(l)}) ({coq_term(r)})"
            for t in subs:
                out = f"SAnd (SSub [TVar {t[1]}] ({coq_cond(t[2])})) ({out})"
            return out
        return f"SCmp {COQ_OP[c[1]]} ({coq_term(c[2])}) ({coq_term(c[3])})"
    if k == 'in':
        return f"SIn ({coq_term(c[1])}) ({coq_term(c[2])})"
    if k == 'contains':
        return f"SContains ({coq_term(c[1])}) ({coq_term(c[2])})"
    if k == 'truth':
        return f"STruth ({coq_term(c[1])})"
    if k == 'and':
        return f"SAnd ({coq_cond(c[1])}) ({coq_cond(c[2])})"
    if k == 'or':
        return f"SOr ({coq_cond(c[1])}) ({coq_cond(c[2])})"
    if k == 'not':
        return f"SNot ({coq_cond(c[1])})"
    if k == 'forall':
        return f"SForAll {c[1]} ({coq_cond(c[2])})"
    if k == 'sub':
        return f"SSub [{'; '.join(coq_term(t) for t in c[1])}] ({coq_cond(c[2])})"
    raise ValueError(c)


def elaborate_nest(case):
    """a constructor argument  ['nest', k, t]  is  W(w=t)  written in a rule head: a variable k over the registered W instances
    (the case's 'wrappers': heap objects appended after the P objects, their value in field 0) restricted to  k.w == t,
    read as the variable plus one more conjunct of the body (symbolic.py: Variable._update_domain_and_kwargs_expression_)"""
    if not any(t[0] == 'nest' for t in case['sel']):
        return case
    c = dict(case)
    n = len(case['heap'])
    c['heap'] = list(case['heap']) + [[w, 0, '', [], None, False, [0, 0], {'o': 0}, False] for w in case['wrappers']]
    c['doms'] = list(case['doms'])
    c['binders'] = list(case['binders'])
    c['sel'] = []
    cond = case['cond']
    for t in case['sel']:
        if t[0] != 'nest':
            c['sel'].append(t)
            continue
        k = t[1]
        c['doms'].append([k, [n + j for j in range(len(case['wrappers']))]])
        c['binders'].append(['var', k])
        eq = ['cmp', '==', ['map', ['f', 0], ['var', k]], t[2]]
        cond = eq if cond is None else ['and', cond, eq, 'fn']
        c['sel'].append(['var', k])
    c['cond'] = cond
    return c


def value_equal_view(case):
    """case['value_equal_join']: the objects are of a class whose __eq__ compares the attributes (a, b) - different objects may be EQUAL -
    and the condition compares objects (a bare variable against an object-valued attribute).  The models compare objects by identity,
    so in THEIR view of the case both operands of such a comparison are read through a hidden field `rep` that holds the first heap
    object with the same (a, b): x == y.peer  becomes  x.rep == y.peer.rep.  Rows still list the objects themselves."""
    if not case.get('value_equal_join'):
        return case
    REP, PEER = len(FIELDS), FIELDS.index('peer')
    c = dict(case)
    c['heap'] = []
    for o in case['heap']:
        rep = min(j for j, q in enumerate(case['heap']) if (q[0], q[1]) == (o[0], o[1]))
        c['heap'].append(list(o) + [None] * (REP - len(o)) + [{'o': rep}])

    def is_obj(t):
        return t[0] == 'var' or (t[0] == 'map' and t[1] == ['f', PEER])

    def rc(cd):
        if cd is None:
            return None
        if cd[0] == 'cmp' and cd[1] in ('==', '!=') and is_obj(cd[2]) and is_obj(cd[3]):
            return ['cmp', cd[1], ['map', ['f', REP], cd[2]], ['map', ['f', REP], cd[3]]]
        if cd[0] in ('and', 'or'):
            return [cd[0], rc(cd[1]), rc(cd[2])] + cd[3:]
        if cd[0] == 'not':
            return ['not', rc(cd[1])] + cd[2:]
        return cd
    c['cond'] = rc(case['cond'])
    return c


def coq_qcase(case):
    case = value_equal_view(elaborate_nest(case))
    heap = "[" + "; ".join("[" + "; ".join(coq_val(v) for v in o) + "]" for o in case['heap']) + "]"
    doms = "[" + "; ".join(f"({k}, [{'; '.join(coq_val({'o': i}) for i in d)}])" for k, d in case['doms']) + "]"
    def cb(b):
        if b[0] == 'var':
            return f"BVar {b[1]}"
        if b[0] == 'flat':
            return f"BFlat {b[1]} ({coq_term(b[2])})"
        if b[0] == 'concatflat':
            return f"BConcatFlat {b[1]} {b[2]} ({coq_term(b[3])})"
        return f"BConcat {b[1]} {b[2]} ({coq_term(b[3])})"
    bs = "[" + "; ".join(cb(b) for b in case['binders']) + "]"
    sel = "[" + "; ".join(coq_term(t) for t in case['sel']) + "]"
    cond = f"Some ({coq_cond(case['cond'])})" if case['cond'] is not None else "None"
    filters = "[" + "; ".join(f"({k}, {coq_cond(c)})" for k, c in case.get('dom_filters', [])) + "]"
    return (f"{{| qc_heap := {heap}; qc_doms := {doms}; qc_filters := {filters}; qc_binders := {bs}; qc_sel := {sel}; qc_cond := {cond} |}}")


# ------------------------------------------------------------------------------------------------ canonical rows
def show_atom(v, index_of):
    if isinstance(v, bool):
        return 'bT' if v else 'bF'
    if isinstance(v, int):
        return f'i{v}'
    if v is None:
        return 'N'
    if isinstance(v, str):
        return f's<{v}>'
    if isinstance(v, (tuple, list)):
        return '(' + ','.join(f'i{x}' for x in v) + ')'
    return f'o{index_of(v)}'


def show_val(v, index_of):
    if isinstance(v, (tuple, list)):
        return '(' + ','.join(show_atom(x, index_of) for x in v) + ')'
    return show_atom(v, index_of)


def parse_rows(s):
    """'R r1;r2' -> list of row strings; 'X ...' -> the string itself"""
    s = s.strip()
    if not s.startswith('R'):
        return s
    body = s[1:].strip()
    return body.split(';') if body else []


# ------------------------------------------------------------------------------------------------ helpers on cases
def term_keys(t, acc):
    if t[0] == 'subq':
        acc.add(t[1])
        term_keys(t[3], acc)
        return acc
    if t[0] == 'var':
        acc.add(t[1])
    elif t[0] == 'map':
        term_keys(t[2], acc)
    elif t[0] == 'flat':
        acc.add(t[1])
        term_keys(t[2], acc)
    elif t[0] == 'concat':
        acc.add(t[1])
    elif t[0] == 'nest':
        term_keys(t[2], acc)
    return acc


def cond_size(c):
    if c is None:
        return 0
    k = c[0]
    if k in ('and', 'or'):
        return 1 + cond_size(c[1]) + cond_size(c[2])
    if k == 'not':
        return 1 + cond_size(c[1])
    if k in ('forall', 'sub'):
        return 1 + cond_size(c[2])
    return 1


def cond_ops(c, acc):
    if c is None:
        return acc
    k = c[0]
    acc[k] = acc.get(k, 0) + 1
    if k in ('and', 'or'):
        cond_ops(c[1], acc)
        cond_ops(c[2], acc)
    elif k == 'not':
        if c[1][0] == 'not':
            acc['not_under_not'] = acc.get('not_under_not', 0) + 1
        cond_ops(c[1], acc)
    elif k in ('forall', 'sub'):
        cond_ops(c[2], acc)
    return acc


def all_selected(case):
    """every binder of the query is selected as such (then rows are compared as sequences / multisets)"""
    sel = set()
    for t in case['sel']:
        if t[0] in ('var', 'flat', 'concat'):
            sel.add(t[1])
    return all(b[1] in sel for b in case['binders'])


def in_dfrag(case):
    """the fragment on which the D-model (Dedup.v) claims the exact row SEQUENCE: a condition built from comparisons, membership
    tests and expressions in condition position with and_/or_/not_, no for_all / nested query / flatten / concatenate anywhere
    (mirrors Dedup.dfrag / Dedup.dterm; Run.run_qcase prints `DD -` outside it)"""
    def tok(t):
        if t[0] in ('lit', 'var'):
            return True
        if t[0] == 'map':
            return tok(t[2])
        return False

    def cok(c):
        k = c[0]
        if k == 'cmp':
            return tok(c[2]) and tok(c[3])
        if k in ('in', 'contains'):
            return tok(c[1]) and tok(c[2])
        if k == 'truth':
            return tok(c[1])
        if k in ('and', 'or'):
            return cok(c[1]) and cok(c[2])
        if k == 'not':
            return cok(c[1])
        if k == 'sub':
            # (the(...) in condition position yields ONE false row where an(...) yields one per inner false row: sets only)
            return cok(c[2]) and all(tok(t) for t in c[1]) and not (len(c) > 3 and c[3] == 'the')
        if k == 'forall':
            return len(c) == 3 and cok(c[2])          # (a universal EXPRESSION is read as its variable by the models: sets only)
        return False
    return case.get('cond') is not None and cok(case['cond']) and all(tok(t) for t in case['sel']) and not case.get('infer')
