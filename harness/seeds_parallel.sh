#!/bin/bash
# usage: harness/seeds_parallel.sh [jobs] [seed ids...]   -- development helper: runs the quick check of every seeded change's own
# property against a scratch worktree of /repo with the change applied, each with a private copy of the Coq project and a private
# output directory (EQL_COQ_DIR / EQL_OUT_DIR), several at a time.  Nothing under /repo or /verif is modified.
jobs=${1:-5}; shift
cd /verif
ids=${@:-$(ls seeded)}
one() {
  id=$1; prop=$(python3 -c "import json;print(json.load(open('/verif/seeded/$id/meta.json'))['property'])")
  wt=/tmp/sp_wt_$id; cq=/tmp/sp_coq_$id; out=/tmp/sp_out_$id
  rm -rf $cq $out; git -C /repo worktree remove --force $wt >/dev/null 2>&1
  git -C /repo worktree add -f --detach $wt HEAD >/dev/null 2>&1 || { echo "$id WORKTREE-FAILED"; return; }
  if ! git -C $wt apply /verif/seeded/$id/patch.diff 2>/dev/null; then echo "$id PATCH-DOES-NOT-APPLY"; git -C /repo worktree remove --force $wt; return; fi
  rsync -a --exclude='cases_*' /verif/coq/ $cq/; mkdir -p $out
  res=$(EQL_REPO=$wt EQL_COQ_DIR=$cq EQL_OUT_DIR=$out VERIF_JOBS=3 timeout 1500 ./check $prop quick 2>&1 | grep -v '^KNOWN-FINDING' | tail -2 | tr '\n' ' ' | cut -c1-230)
  echo "$id $prop :: $res"
  git -C /repo worktree remove --force $wt >/dev/null 2>&1; rm -rf $cq $out
}
export -f one
echo $ids | tr ' ' '\n' | xargs -P $jobs -I{} bash -c 'one {}'
