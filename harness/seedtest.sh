#!/bin/bash
# usage: seedtest.sh <seed dir name> <property> [tier]   -- applies the seeded change to /repo, runs the check, undoes it
id=$1; prop=$2; tier=${3:-quick}
cd /verif
git -C /repo apply /verif/seeded/$id/patch.diff || exit 2
./check $prop $tier | tail -${4:-3}
rc=${PIPESTATUS[0]}
git -C /repo checkout -- .
exit $rc
