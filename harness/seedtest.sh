#!/bin/bash
# usage: seedtest.sh <seed dir name> <property> [tier]   -- applies the seeded change to /repo, runs the check, undoes it
id=$1; prop=$2; tier=${3:-quick}
cd /verif
git -C /repo apply /verif/seeded/$id/patch.diff || exit 2
cp evidence/$prop.json /tmp/seedtest_ev_$id.json 2>/dev/null   # the evidence file is for the unchanged tree: put it back afterwards
./check $prop $tier > /tmp/seedtest_$id.out 2>&1
rc=$?
git -C /repo checkout -- .
[ -f /tmp/seedtest_ev_$id.json ] && mv /tmp/seedtest_ev_$id.json evidence/$prop.json
tail -${4:-3} /tmp/seedtest_$id.out
f=$(grep -o 'replay=[^ ]*' /tmp/seedtest_$id.out | head -1 | cut -d= -f2)
{ echo "\$ git -C /repo apply seeded/$id/patch.diff && ./check $prop $tier ; git -C /repo checkout -- .   (exit $rc)"; tail -4 /tmp/seedtest_$id.out; [ -n "$f" ] && [ -f "$f" ] && { echo "--- replay file (head) ---"; head -c 1800 "$f"; }; } > /verif/seeded/$id/check_output.txt
rm -f /tmp/seedtest_$id.out
exit $rc
