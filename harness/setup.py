"""MANIFEST.setup_cmd: build the whole Coq development once (translator + full make) from files on disk."""
import os, sys
sys.path.insert(0, os.path.dirname(os.path.abspath(__file__)))
from common import build

r = build(timeout=3000)
print(r['log'][-3000:])
print('translator:', r['translator_msg'])
if not r['ok']:
    print('SETUP: build failed for', r['failed'])
    sys.exit(1)
print('SETUP: ok')
