#!/bin/bash
# usage: store_seed.sh <worktree with SEED/> <seed id> <property> [extra properties to run too...]
# copies a CONFIRMED seed (confirm_seed.sh first) into /verif/seeded/<id>, runs the check against it, completes meta.json
wt=$1; id=$2; prop=$3; shift 3
d=/verif/seeded/$id
mkdir -p $d && cp $wt/SEED/patch.diff $wt/SEED/demo.py $d/ && cp $wt/SEED/meta.json $d/agent_meta.json
cd /verif
harness/seedtest.sh $id $prop quick 4 > /tmp/store_$id.out; rc=$?
line=$(grep "^$prop quick:" /tmp/store_$id.out | tail -1)
/venv/bin/python - "$d" "$prop" "$rc" "$line" "$id" <<'PY'
import json, sys
d, prop, rc, line, sid = sys.argv[1:6]
a = json.load(open(d + '/agent_meta.json'))
m = {"property": prop,
     "breaks": a.get('summary') or a.get('breaks') or a.get('what') or '',
     "needs_to_manifest": a.get('needs') or a.get('needs_to_manifest') or '',
     "written_by": "a fresh sub-agent that was given only the property text, a short description of the earlier seeded changes to avoid, and a scratch worktree of /repo (nothing from /verif)",
     "agent_ran": a.get('ran') or a.get('agent_ran') or [],
     "confirmed_by_me": ["harness/confirm_seed.sh : in a scratch worktree of /repo HEAD the demonstration passes without the change, the unedited suite gives 70 passed (same 2 rendering failures) with it, the demonstration fails with it",
                         f"harness/seedtest.sh {sid} {prop} quick  -> see check_output.txt"],
     "check_result": line, "detected": rc == '1'}
json.dump(m, open(d + '/meta.json', 'w'), indent=1)
import os; os.remove(d + '/agent_meta.json')
print(sid, 'detected' if rc == '1' else 'MISSED', '|', line)
PY
rm -f /tmp/store_$id.out
