#!/bin/bash
# usage: store_seed2.sh <worktree with SEED/ and the change applied> <seed id> <property>
# like store_seed.sh, but never touches /repo: the check runs against the worktree with a private Coq copy / output directory
wt=$1; id=$2; prop=$3
d=/verif/seeded/$id
mkdir -p $d && cp $wt/SEED/patch.diff $wt/SEED/demo.py $d/ && cp $wt/SEED/meta.json $d/agent_meta.json
cq=/tmp/ss_coq_$id; out=/tmp/ss_out_$id; rm -rf $cq $out; rsync -a --exclude='cases_*' /verif/coq/ $cq/; mkdir -p $out
cd /verif
EQL_REPO=$wt EQL_COQ_DIR=$cq EQL_OUT_DIR=$out VERIF_JOBS=6 timeout 1500 ./check $prop quick > /tmp/ss_$id.out 2>&1; rc=$?
line=$(grep "^$prop quick:" /tmp/ss_$id.out | tail -1)
f=$(grep -o 'replay=[^ ]*' /tmp/ss_$id.out | head -1 | cut -d= -f2)
{ echo "\$ git -C /repo apply seeded/$id/patch.diff && ./check $prop quick ; git -C /repo checkout -- .   (exit $rc; run against a scratch worktree with the change applied)"; grep -v '^KNOWN-FINDING' /tmp/ss_$id.out | tail -4; [ -n "$f" ] && [ -f "$f" ] && { echo "--- replay file (head) ---"; head -c 1800 "$f"; }; } > $d/check_output.txt
/venv/bin/python - "$d" "$prop" "$rc" "$line" "$id" <<'PY'
import json, sys, os
d, prop, rc, line, sid = sys.argv[1:6]
a = json.load(open(d + '/agent_meta.json'))
m = {"property": prop, "breaks": a.get('summary') or a.get('breaks') or '', "needs_to_manifest": a.get('needs') or a.get('needs_to_manifest') or '',
     "written_by": "a fresh sub-agent that was given only the property text, a short description of the earlier seeded changes to avoid, and a scratch worktree of /repo (nothing from /verif)",
     "agent_ran": a.get('ran') or a.get('agent_ran') or [],
     "confirmed_by_me": ["harness/confirm_seed.sh : in a scratch worktree of /repo HEAD the demonstration passes without the change, the unedited suite gives 70 passed (same 2 rendering failures) with it, the demonstration fails with it",
                         f"quick check of {prop} against the tree with the change applied -> see check_output.txt"],
     "check_result": line, "detected": rc == '1'}
json.dump(m, open(d + '/meta.json', 'w'), indent=1)
os.remove(d + '/agent_meta.json')
print(sid, 'detected' if rc == '1' else 'MISSED', '|', line)
PY
rm -rf $cq $out /tmp/ss_$id.out
