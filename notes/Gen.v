From Coq Require Import List ZArith Bool Lia.
Import ListNotations.

Section Gen.
Variable St : Type.

(* Resumable generator result: either finished with a final state, or yielded a value,
   the state at the yield point, and a continuation resumed with the (possibly modified) state. *)
Inductive res (A : Type) : Type :=
| Done  (s : St)
| Yield (a : A) (s : St) (k : St -> res A)
| Raise (e : nat) (s : St).
Arguments Done {A}. Arguments Yield {A}. Arguments Raise {A}.

Definition gen A := St -> res A.

Fixpoint app_res {A} (r : res A) (g : gen A) : res A :=
  match r with
  | Done s => g s
  | Yield a s k => Yield a s (fun s' => app_res (k s') g)
  | Raise e s => Raise e s
  end.

Fixpoint bind_res {A B} (r : res A) (f : A -> gen B) : res B :=
  match r with
  | Done s => Done s
  | Yield a s k => app_res (f a s) (fun s' => bind_res (k s') f)
  | Raise e s => Raise e s
  end.

(* for x in list: body *)
Fixpoint for_each {A B} (l : list A) (body : A -> gen B) : gen B :=
  fun s => match l with
  | [] => Done s
  | x :: xs => app_res (body x s) (for_each xs body)
  end.

(* drain fully, the consumer does not touch the state *)
Fixpoint drain {A} (r : res A) : list A * St + nat * St :=
  match r with
  | Done s => inl ([], s)
  | Yield a s k => match drain (k s) with inl (l, s') => inl (a :: l, s') | inr e => inr e end
  | Raise e s => inr (e, s)
  end.

(* take k results then abandon (close): state is the one at the k-th yield *)
Fixpoint take {A} (n : nat) (r : res A) (s0 : St) : list A * St :=
  match n with
  | O => ([], s0)
  | S n' => match r with
            | Done s => ([], s)
            | Yield a s k => let '(l, s') := take n' (k s) s in (a :: l, s')
            | Raise e s => ([], s)
            end
  end.

Lemma drain_app {A} (r : res A) g :
  drain (app_res r g) =
  match drain r with
  | inl (l, s) => match drain (g s) with inl (l', s') => inl (l ++ l', s') | inr e => inr e end
  | inr e => inr e
  end.
Proof.
  induction r as [s | a s k IH | e s]; simpl; auto.
  - destruct (drain (g s)) as [[l s']|e]; auto.
  - rewrite IH. destruct (drain (k s)) as [[l s']|e]; auto.
    destruct (drain (g s')) as [[l' s'']|e]; auto.
Qed.
End Gen.

Arguments Done {St A}. Arguments Yield {St A}. Arguments Raise {St A}.
Definition g1 : gen nat nat := for_each nat [1;2;3]%nat (fun x s => Yield x (S s) (fun s' => Done s')).
Eval vm_compute in drain nat (g1 0%nat).
Eval vm_compute in take nat 2 (g1 0%nat) 0%nat.
Print Assumptions drain_app.
