(* Feasibility prototype for the P-model (NOT framework code): comparator / AND / else-if over one
   variable, flags paired with rows, operand-order choice, yield_when_false.  Goal: C01-shaped theorem. *)
From Coq Require Import List ZArith Bool Lia.
Import ListNotations.

Definition oid := nat.
Inductive op := Eq | Ne | Lt | Le | Gt | Ge.
Definition apply (o : op) (a b : Z) : bool :=
  match o with Eq => Z.eqb a b | Ne => negb (Z.eqb a b) | Lt => Z.ltb a b | Le => Z.leb a b
             | Gt => Z.ltb b a | Ge => Z.leb b a end.

Inductive term := TAttr (f : nat) | TLit (z : Z).          (* attribute of THE variable / literal *)
Inductive inode := ICmp (o : op) (l r : term) | IAnd (a b : inode) | IElseIf (a b : inode).

Lemma flat_map_flat_map {A B C} (f : B -> list C) (g : A -> list B) l :
  flat_map f (flat_map g l) = flat_map (fun x => flat_map f (g x)) l.
Proof. induction l as [|a l IH]; cbn [flat_map]; [reflexivity|]. rewrite flat_map_app, IH. reflexivity. Qed.

Section M.
Variable heap : oid -> nat -> Z.
Variable dom : list oid.

Definition binding := option oid.                            (* is the single variable bound? *)

Definition eval_term (t : term) (b : binding) : list (binding * Z) :=
  match t with
  | TLit z => [(b, z)]
  | TAttr f => match b with
               | Some o => [(b, heap o f)]
               | None => map (fun o => (Some o, heap o f)) dom
               end
  end.

Definition mentions_var (t : term) := match t with TAttr _ => true | TLit _ => false end.

Definition eval_cmp (o : op) (l r : term) (b : binding) (ywf : bool) : list (binding * bool) :=
  let swap := match b with Some _ => mentions_var r | None => false end in
  let first := if swap then r else l in
  let second := if swap then l else r in
  flat_map (fun p1 : binding * Z => let '(b1, v1) := p1 in
    flat_map (fun p2 : binding * Z => let '(b2, v2) := p2 in
      let res := if swap then apply o v2 v1 else apply o v1 v2 in
      if res || ywf then [(b2, negb res)] else []) (eval_term second b1)) (eval_term first b).

Fixpoint eval (c : inode) (b : binding) (ywf : bool) : list (binding * bool) :=
  match c with
  | ICmp o l r => eval_cmp o l r b ywf
  | IAnd x y => flat_map (fun p : binding * bool => let '(b1, f1) := p in if ywf && f1 then [(b1, true)] else
                                           if f1 then [] else eval y b1 ywf) (eval x b ywf)
  | IElseIf x y =>
      match eval x b true with
      | [] => eval y b ywf
      | ls => flat_map (fun p : binding * bool => let '(b1, f1) := p in if f1 then eval y b1 ywf else [(b1, false)]) ls
      end
  end.

Definition tval (t : term) (o : oid) : Z := match t with TLit z => z | TAttr f => heap o f end.
Fixpoint isat (c : inode) (o : oid) : bool :=
  match c with
  | ICmp p l r => apply p (tval l o) (tval r o)
  | IAnd x y => isat x o && isat y o
  | IElseIf x y => isat x o || isat y o
  end.

Fixpoint has_var (c : inode) : bool :=
  match c with ICmp _ l r => mentions_var l || mentions_var r | IAnd x y | IElseIf x y => has_var x || has_var y end.
(* leftmost leaf mentions the variable: then the domain loop is the outermost loop *)
Fixpoint leftmost_var (c : inode) : bool :=
  match c with ICmp _ l r => mentions_var l || mentions_var r | IAnd x _ | IElseIf x _ => leftmost_var x end.

Definition out (o : oid) (sat ywf : bool) : list (binding * bool) :=
  if sat then [(Some o, false)] else if ywf then [(Some o, true)] else [].

Lemma eval_term_bound t o : eval_term t (Some o) = [(Some o, tval t o)].
Proof. destruct t; reflexivity. Qed.

Lemma eval_bound c o ywf : eval c (Some o) ywf = out o (isat c o) ywf.
Proof.
  revert ywf; induction c as [p l r | x IHx y IHy | x IHx y IHy]; intros ywf; cbn [eval isat].
  - unfold eval_cmp, out. destruct (mentions_var r) eqn:Hr.
    + rewrite (eval_term_bound r o). cbn [flat_map]. rewrite (eval_term_bound l o). cbn [flat_map].
      rewrite !app_nil_r. destruct (apply p (tval l o) (tval r o)); destruct ywf; reflexivity.
    + rewrite (eval_term_bound l o). cbn [flat_map]. rewrite (eval_term_bound r o). cbn [flat_map].
      rewrite !app_nil_r. destruct (apply p (tval l o) (tval r o)); destruct ywf; reflexivity.
  - rewrite IHx. unfold out. destruct (isat x o); cbn [flat_map andb].
    + rewrite app_nil_r. replace (ywf && false) with false by (destruct ywf; reflexivity).
      rewrite IHy. reflexivity.
    + destruct ywf; cbn [flat_map andb]; reflexivity.
  - rewrite IHx. unfold out. destruct (isat x o); cbn [flat_map orb].
    + reflexivity.
    + rewrite app_nil_r, IHy. reflexivity.
Qed.

Lemma flat_map_out_filter ywf (f : oid -> bool) :
  map fst (flat_map (fun o => out o (f o) ywf) dom) = map Some (if ywf then dom else filter f dom).
Proof.
  induction dom as [|o d IH]; [destruct ywf; reflexivity|].
  cbn [flat_map filter]. rewrite map_app, IH. unfold out.
  destruct (f o), ywf; reflexivity.
Qed.


Fixpoint leaves_var (c : inode) : bool :=
  match c with ICmp _ l r => mentions_var l || mentions_var r | IAnd x y | IElseIf x y => leaves_var x && leaves_var y end.

Lemma eval_unbound_nil c ywf : leaves_var c = true -> dom = [] -> eval c None ywf = [].
Proof.
  revert ywf; induction c as [p l r | x IHx y IHy | x IHx y IHy]; intros ywf H Hd; cbn [leaves_var] in H; cbn [eval].
  - unfold eval_cmp. destruct l as [f|z], r as [g|w]; cbn [mentions_var eval_term orb] in *; rewrite ?Hd; try reflexivity; discriminate.
  - apply andb_prop in H as [Hx Hy]. rewrite (IHx ywf Hx Hd). reflexivity.
  - apply andb_prop in H as [Hx Hy]. rewrite (IHx true Hx Hd). apply IHy; assumption.
Qed.

(* the nested-loop lemma: an unbound evaluation is the domain loop around bound evaluations *)
Lemma eval_unbound c ywf : leaves_var c = true ->
  eval c None ywf = flat_map (fun o => eval c (Some o) ywf) dom.
Proof.
  revert ywf; induction c as [p l r | x IHx y IHy | x IHx y IHy]; intros ywf H; cbn [leaves_var] in H.
  - cbn [eval]. unfold eval_cmp at 1.
    destruct l as [f|z]; cbn [eval_term mentions_var] in *.
    + rewrite flat_map_concat_map, map_map, <- flat_map_concat_map.
      apply flat_map_ext; intros o. unfold eval_cmp.
      destruct r as [g|w]; cbn [mentions_var eval_term flat_map]; rewrite ?app_nil_r; reflexivity.
    + destruct r as [g|w]; [|discriminate]. cbn [flat_map eval_term]. rewrite app_nil_r.
      rewrite flat_map_concat_map, map_map, <- flat_map_concat_map.
      apply flat_map_ext; intros o. unfold eval_cmp. cbn [mentions_var eval_term flat_map].
      rewrite ?app_nil_r. reflexivity.
  - apply andb_prop in H as [Hx Hy]. cbn [eval]. rewrite (IHx ywf Hx).
    rewrite flat_map_flat_map. reflexivity.
  - apply andb_prop in H as [Hx Hy]. cbn [eval]. rewrite (IHx true Hx).
    destruct (flat_map (fun o => eval x (Some o) true) dom) eqn:E.
    + assert (dom = []) as Hd.
      { revert E. generalize dom as d. intros d. destruct d as [|o0 d]; [reflexivity|].
        cbn [flat_map]. rewrite eval_bound. unfold out. destruct (isat x o0); discriminate. }
      rewrite (eval_unbound_nil y ywf Hy Hd). rewrite Hd. reflexivity.
    + rewrite <- E. clear E.
      rewrite flat_map_flat_map. apply flat_map_ext; intros o.
      destruct (eval x (Some o) true) eqn:Eo; [|reflexivity].
      rewrite eval_bound in Eo. unfold out in Eo. destruct (isat x o); discriminate.
Qed.

(* C01-shaped statement for the fragment: exact, ordered, duplicate-free domain filter *)
Theorem proto_C01 c : leaves_var c = true ->
  map fst (eval c None false) = map Some (filter (isat c) dom).
Proof.
  intros H. rewrite (eval_unbound c false H).
  rewrite (flat_map_ext _ (fun o => out o (isat c o) false)) by (intros; apply eval_bound).
  apply (flat_map_out_filter false).
Qed.
End M.
Print Assumptions proto_C01.
