(* Feasibility prototype (NOT framework code) for DESIGN.md section 3.5:
   the partition ("cover") invariant of the P-model for SEVERAL variables:
   comparator with operand-order choice / AND / else-if, flags paired with rows. *)
From Coq Require Import List ZArith Bool Lia Arith.
Import ListNotations.

Definition oid := nat.
Definition var := nat.
Inductive op := Eq | Ne | Lt | Le | Gt | Ge.
Definition apply (o : op) (a b : Z) : bool :=
  match o with Eq => Z.eqb a b | Ne => negb (Z.eqb a b) | Lt => Z.ltb a b | Le => Z.leb a b
             | Gt => Z.ltb b a | Ge => Z.leb b a end.
Inductive term := TAttr (x : var) (f : nat) | TLit (z : Z).
Inductive inode := ICmp (o : op) (l r : term) | IAnd (a b : inode) | IElseIf (a b : inode).

(* ---------- generic list facts ---------- *)
Lemma list_sum_indicator {A} (h : A -> nat) (p : A -> bool) K l :
  (forall a, In a l -> h a = if p a then K else 0) ->
  list_sum (map h l) = K * length (filter p l).
Proof.
  induction l as [|a l IH]; intros H; simpl; [lia|].
  rewrite (H a (or_introl eq_refl)), IH by (intros; apply H; right; assumption).
  destruct (p a); simpl; lia.
Qed.

Lemma list_sum_indicator2 {A} (h : A -> nat) (p1 p2 : A -> bool) K1 K2 l :
  (forall a, In a l -> h a = if p1 a then K1 else if p2 a then K2 else 0) ->
  (forall a, In a l -> p1 a = true -> p2 a = false) ->
  list_sum (map h l) = K1 * length (filter p1 l) + K2 * length (filter p2 l).
Proof.
  induction l as [|a l IH]; intros H D; simpl; [lia|].
  rewrite (H a (or_introl eq_refl)).
  rewrite IH; [| intros; apply H; right; assumption | intros; apply D; [right|]; assumption].
  specialize (D a (or_introl eq_refl)).
  destruct (p1 a); [rewrite (D eq_refl)|destruct (p2 a)]; simpl; lia.
Qed.

Lemma filter_all_false {A} (p : A -> bool) l : (forall x, In x l -> p x = false) -> filter p l = [].
Proof. induction l as [|a l IH]; intros H; simpl; [reflexivity|].
  rewrite (H a (or_introl eq_refl)). apply IH. intros; apply H; right; assumption. Qed.

Lemma filter_map_length {A B} (p : B -> bool) (g : A -> B) l :
  length (filter p (map g l)) = length (filter (fun a => p (g a)) l).
Proof. induction l as [|a l IH]; simpl; [reflexivity|]. destruct (p (g a)); simpl; rewrite IH; reflexivity. Qed.

Section M.
Variable heap : oid -> nat -> Z.
Variable dom : var -> list oid.
Hypothesis dom_nodup : forall x, NoDup (dom x).

Definition binding := list (var * oid).
Fixpoint lookup (b : binding) (x : var) : option oid :=
  match b with [] => None | (y, o) :: b' => if Nat.eqb x y then Some o else lookup b' x end.
Definition env := var -> oid.
Definition agreesb (b : binding) (e : env) : bool :=
  forallb (fun p => Nat.eqb (e (fst p)) (snd p)) b.
Definition valid (e : env) := forall x, In (e x) (dom x).

Lemma agrees_lookup b e x o : agreesb b e = true -> lookup b x = Some o -> e x = o.
Proof.
  induction b as [|[y o'] b IH]; cbn [lookup agreesb forallb fst snd]; [discriminate|].
  intros H L. apply andb_prop in H as [H1 H2].
  destruct (Nat.eqb x y) eqn:E.
  - apply Nat.eqb_eq in E; subst y. injection L as <-. apply Nat.eqb_eq; assumption.
  - apply IH; assumption.
Qed.

(* ---------- terms ---------- *)
Definition eval_term (t : term) (b : binding) : list (binding * Z) :=
  match t with
  | TLit z => [(b, z)]
  | TAttr x f => match lookup b x with
                 | Some o => [(b, heap o f)]
                 | None => map (fun o => ((x, o) :: b, heap o f)) (dom x)
                 end
  end.
Definition tval (t : term) (e : env) : Z :=
  match t with TLit z => z | TAttr x f => heap (e x) f end.

Definition tcount (rows : list (binding * Z)) (e : env) : nat :=
  length (filter (fun r => agreesb (fst r) e) rows).

Lemma count_eqb_nodup (l : list oid) (o : oid) : NoDup l -> In o l ->
  length (filter (fun o' => Nat.eqb o o') l) = 1.
Proof.
  induction 1 as [|a l Hn Hd IH]; intros Hin; [destruct Hin|]. cbn [filter].
  destruct (Nat.eqb o a) eqn:E.
  - apply Nat.eqb_eq in E; subst a. cbn [length]. f_equal.
    rewrite filter_all_false; [reflexivity|].
    intros o' Ho'. destruct (Nat.eqb o o') eqn:E'; [|reflexivity].
    apply Nat.eqb_eq in E'; subst o'. contradiction.
  - destruct Hin as [->|Hin]; [rewrite Nat.eqb_refl in E; discriminate|]. apply IH; assumption.
Qed.

(* every row extends the incoming binding *)
Lemma term_ext t b b' v e : In (b', v) (eval_term t b) -> agreesb b' e = true -> agreesb b e = true.
Proof.
  destruct t as [x f|z]; cbn [eval_term].
  - destruct (lookup b x).
    + intros [H|[]]; injection H as <- _; auto.
    + intros H A. apply in_map_iff in H as (o & H & _). injection H as <- _.
      cbn [agreesb forallb] in A. apply andb_prop in A as [_ A]. exact A.
  - intros [H|[]]; injection H as <- _; auto.
Qed.

(* exactly one row agrees with a valid assignment that agrees with the incoming binding,
   and it carries the term's value under that assignment *)
Lemma term_cover t b e : agreesb b e = true -> valid e ->
  tcount (eval_term t b) e = 1 /\
  (forall b' v, In (b', v) (eval_term t b) -> agreesb b' e = true -> v = tval t e).
Proof.
  intros A V. destruct t as [x f|z]; cbn [eval_term tval].
  - destruct (lookup b x) as [o|] eqn:L.
    + split.
      * unfold tcount. cbn [filter fst]. rewrite A. reflexivity.
      * intros b' v [H|[]] _. injection H as _ <-. rewrite (agrees_lookup b e x o A L). reflexivity.
    + split.
      * unfold tcount. rewrite <- (count_eqb_nodup (dom x) (e x) (dom_nodup x) (V x)).
        rewrite filter_map_length. f_equal. apply filter_ext. intros o.
        cbn [fst agreesb forallb snd]. fold (agreesb b e). rewrite A, andb_true_r. reflexivity.
      * intros b' v H Ab. apply in_map_iff in H as (o & H & _). injection H as <- <-.
        cbn [agreesb forallb fst snd] in Ab. apply andb_prop in Ab as [Ab _].
        apply Nat.eqb_eq in Ab. rewrite Ab. reflexivity.
  - split; [unfold tcount; cbn [filter fst]; rewrite A; reflexivity|].
    intros b' v [H|[]] _. injection H as _ <-. reflexivity.
Qed.

(* ---------- rows with truth flags ---------- *)
Definition cover (f : bool) (rows : list (binding * bool)) (e : env) : nat :=
  length (filter (fun r => Bool.eqb (snd r) f && agreesb (fst r) e) rows).

Lemma cover_app f r1 r2 e : cover f (r1 ++ r2) e = cover f r1 e + cover f r2 e.
Proof. unfold cover. rewrite filter_app, app_length. reflexivity. Qed.

Lemma cover_flat_map {A} (g : A -> list (binding * bool)) l f e :
  cover f (flat_map g l) e = list_sum (map (fun a => cover f (g a) e) l).
Proof. induction l as [|a l IH]; simpl; [reflexivity|]. rewrite cover_app, IH. reflexivity. Qed.

Lemma cover_opt f (c : bool) b fl e :
  cover f (if c then [(b, fl)] else []) e = if c && Bool.eqb fl f && agreesb b e then 1 else 0.
Proof. unfold cover. destruct c; simpl; [|reflexivity]. destruct (Bool.eqb fl f && agreesb b e); reflexivity. Qed.

Definition cmp_rows (t1 t2 : term) (resf : Z -> Z -> bool) (b : binding) (ywf : bool) : list (binding * bool) :=
  flat_map (fun p1 : binding * Z => let '(b1, v1) := p1 in
    flat_map (fun p2 : binding * Z => let '(b2, v2) := p2 in
      if resf v1 v2 || ywf then [(b2, negb (resf v1 v2))] else []) (eval_term t2 b1)) (eval_term t1 b).

Lemma cmp_rows_ext t1 t2 resf b ywf b' fl e :
  In (b', fl) (cmp_rows t1 t2 resf b ywf) -> agreesb b' e = true -> agreesb b e = true.
Proof.
  unfold cmp_rows. intros H A. apply in_flat_map in H as ([b1 v1] & H1 & H).
  apply in_flat_map in H as ([b2 v2] & H2 & H).
  destruct (resf v1 v2 || ywf); [|destruct H]. destruct H as [H|[]]. injection H as <- _.
  eapply term_ext; [exact H1|]. eapply term_ext; [exact H2|exact A].
Qed.

Lemma cmp_rows_cover t1 t2 resf b ywf e f : agreesb b e = true -> valid e ->
  cover f (cmp_rows t1 t2 resf b ywf) e =
  let res := resf (tval t1 e) (tval t2 e) in
  if (res || ywf) && Bool.eqb (negb res) f then 1 else 0.
Proof.
  intros A V. cbn zeta. set (K := if (resf (tval t1 e) (tval t2 e) || ywf) && Bool.eqb (negb (resf (tval t1 e) (tval t2 e))) f then 1 else 0).
  unfold cmp_rows. rewrite cover_flat_map.
  destruct (term_cover t1 b e A V) as [C1 V1].
  rewrite (list_sum_indicator _ (fun r => agreesb (fst r) e) K).
  - unfold tcount in C1. rewrite C1. lia.
  - intros [b1 v1] H1. cbn [fst]. rewrite cover_flat_map.
    destruct (agreesb b1 e) eqn:A1.
    + destruct (term_cover t2 b1 e A1 V) as [C2 V2].
      rewrite (list_sum_indicator _ (fun r => agreesb (fst r) e) K).
      * unfold tcount in C2. rewrite C2. lia.
      * intros [b2 v2] H2. cbn [fst]. rewrite cover_opt.
        destruct (agreesb b2 e) eqn:A2.
        -- rewrite (V1 b1 v1 H1 A1), (V2 b2 v2 H2 A2). unfold K. rewrite andb_true_r. reflexivity.
        -- rewrite andb_false_r. reflexivity.
    + rewrite (list_sum_indicator _ (fun _ => false) 0).
      * lia.
      * intros [b2 v2] H2. rewrite cover_opt.
        destruct (agreesb b2 e) eqn:A2; [|rewrite andb_false_r; reflexivity].
        rewrite (term_ext t2 b1 b2 v2 e H2 A2) in A1. discriminate.
Qed.

(* ---------- nodes ---------- *)
Definition bound_in (t : term) (b : binding) : bool :=
  match t with TAttr x _ => match lookup b x with Some _ => true | None => false end | TLit _ => false end.

Fixpoint eval (c : inode) (b : binding) (ywf : bool) : list (binding * bool) :=
  match c with
  | ICmp o l r =>
      (* get_first_second_operands: enumerate the right operand first when it is already bound *)
      if bound_in r b then cmp_rows r l (fun v1 v2 => apply o v2 v1) b ywf
      else cmp_rows l r (apply o) b ywf
  | IAnd x y =>
      flat_map (fun p : binding * bool => let '(b1, f1) := p in
                  if f1 then (if ywf then [(b1, true)] else []) else eval y b1 ywf) (eval x b ywf)
  | IElseIf x y =>
      match eval x b true with
      | [] => eval y b ywf
      | ls => flat_map (fun p : binding * bool => let '(b1, f1) := p in
                          if f1 then eval y b1 ywf else [(b1, false)]) ls
      end
  end.

Fixpoint isat (c : inode) (e : env) : bool :=
  match c with
  | ICmp o l r => apply o (tval l e) (tval r e)
  | IAnd x y => isat x e && isat y e
  | IElseIf x y => isat x e || isat y e
  end.

Lemma eval_ext c : forall b ywf b' fl e,
  In (b', fl) (eval c b ywf) -> agreesb b' e = true -> agreesb b e = true.
Proof.
  induction c as [o l r | x IHx y IHy | x IHx y IHy]; intros b ywf b' fl e H A; cbn [eval] in H.
  - destruct (bound_in r b); eapply cmp_rows_ext; eassumption.
  - apply in_flat_map in H as ([b1 f1] & H1 & H).
    destruct f1.
    + destruct ywf; [|destruct H]. destruct H as [H|[]]. injection H as <- _. eapply IHx; eassumption.
    + eapply IHx; [exact H1|]. eapply IHy; eassumption.
  - destruct (eval x b true) as [|p0 ls] eqn:E.
    + eapply IHy; eassumption.
    + rewrite <- E in H. apply in_flat_map in H as ([b1 f1] & H1 & H).
      destruct f1.
      * eapply IHx; [exact H1|]. eapply IHy; eassumption.
      * destruct H as [H|[]]. injection H as <- _. eapply IHx; eassumption.
Qed.

Definition ind (c : bool) : nat := if c then 1 else 0.

(* The partition invariant: true rows cover each satisfying extension exactly once; when false rows
   are requested they cover each non-satisfying extension exactly once, otherwise there are none. *)
Theorem eval_cover c : forall b ywf e, agreesb b e = true -> valid e ->
  cover false (eval c b ywf) e = ind (isat c e) /\
  cover true (eval c b ywf) e = ind (ywf && negb (isat c e)).
Proof.
  induction c as [o l r | x IHx y IHy | x IHx y IHy]; intros b ywf e A V; cbn [eval isat].
  - destruct (bound_in r b); rewrite !cmp_rows_cover by assumption; cbn zeta;
      destruct (apply o (tval l e) (tval r e)), ywf; split; reflexivity.
  - destruct (IHx b ywf e A V) as [XF XT]. rewrite !cover_flat_map. split.
    + rewrite (list_sum_indicator _ (fun r => Bool.eqb (snd r) false && agreesb (fst r) e) (ind (isat y e))).
      * fold (cover false (eval x b ywf) e). rewrite XF. destruct (isat x e), (isat y e); reflexivity.
      * intros [b1 f1] H1. cbn [fst snd]. destruct f1; cbn [Bool.eqb andb].
        -- destruct ywf; [rewrite (cover_opt false true)|]; reflexivity.
        -- destruct (agreesb b1 e) eqn:A1.
           ++ apply (IHy b1 ywf e A1 V).
           ++ unfold cover. rewrite filter_all_false; [reflexivity|]. intros [b2 f2] H2. cbn [fst snd].
              destruct (agreesb b2 e) eqn:A2; [|apply andb_false_r].
              rewrite (eval_ext y b1 ywf b2 f2 e H2 A2) in A1. discriminate.
    + rewrite (list_sum_indicator2 _ (fun r => Bool.eqb (snd r) true && agreesb (fst r) e)
                 (fun r => Bool.eqb (snd r) false && agreesb (fst r) e) (ind ywf) (ind (ywf && negb (isat y e)))).
      * fold (cover true (eval x b ywf) e) (cover false (eval x b ywf) e). rewrite XF, XT.
        destruct (isat x e), (isat y e), ywf; reflexivity.
      * intros [b1 f1] H1. cbn [fst snd]. destruct f1; cbn [Bool.eqb andb].
        -- destruct ywf; [rewrite (cover_opt true true); cbn [andb Bool.eqb]|]; destruct (agreesb b1 e); reflexivity.
        -- destruct (agreesb b1 e) eqn:A1.
           ++ apply (IHy b1 ywf e A1 V).
           ++ unfold cover. rewrite filter_all_false; [reflexivity|]. intros [b2 f2] H2. cbn [fst snd].
              destruct (agreesb b2 e) eqn:A2; [|apply andb_false_r].
              rewrite (eval_ext y b1 ywf b2 f2 e H2 A2) in A1. discriminate.
      * intros [b1 f1] _. cbn [fst snd]. destruct f1; cbn [Bool.eqb andb]; [reflexivity|discriminate].
  - destruct (IHx b true e A V) as [XF XT].
    destruct (eval x b true) as [|p0 ls] eqn:E.
    + (* impossible here: some row of the left side must cover e *)
      exfalso. unfold cover in XF, XT. cbn in XF, XT. destruct (isat x e); discriminate.
    + rewrite <- E in *. clear E p0 ls. rewrite !cover_flat_map. split.
      * rewrite (list_sum_indicator2 _ (fun r => Bool.eqb (snd r) false && agreesb (fst r) e)
                   (fun r => Bool.eqb (snd r) true && agreesb (fst r) e) 1 (ind (isat y e))).
        -- fold (cover true (eval x b true) e) (cover false (eval x b true) e). rewrite XF, XT.
           destruct (isat x e), (isat y e); reflexivity.
        -- intros [b1 f1] H1. cbn [fst snd]. destruct f1; cbn [Bool.eqb andb].
           ++ destruct (agreesb b1 e) eqn:A1.
              ** apply (IHy b1 ywf e A1 V).
              ** unfold cover. rewrite filter_all_false; [reflexivity|]. intros [b2 f2] H2. cbn [fst snd].
                 destruct (agreesb b2 e) eqn:A2; [|apply andb_false_r].
                 rewrite (eval_ext y b1 ywf b2 f2 e H2 A2) in A1. discriminate.
           ++ rewrite (cover_opt false true). cbn [andb Bool.eqb]. destruct (agreesb b1 e); reflexivity.
        -- intros [b1 f1] _. cbn [fst snd]. destruct f1; cbn [Bool.eqb andb]; [discriminate|reflexivity].
      * rewrite (list_sum_indicator _ (fun r => Bool.eqb (snd r) true && agreesb (fst r) e) (ind (ywf && negb (isat y e)))).
        -- fold (cover true (eval x b true) e). rewrite XT. destruct (isat x e), (isat y e), ywf; reflexivity.
        -- intros [b1 f1] H1. cbn [fst snd]. destruct f1; cbn [Bool.eqb andb].
           ++ destruct (agreesb b1 e) eqn:A1.
              ** apply (IHy b1 ywf e A1 V).
              ** unfold cover. rewrite filter_all_false; [reflexivity|]. intros [b2 f2] H2. cbn [fst snd].
                 destruct (agreesb b2 e) eqn:A2; [|apply andb_false_r].
                 rewrite (eval_ext y b1 ywf b2 f2 e H2 A2) in A1. discriminate.
           ++ rewrite (cover_opt true true). reflexivity.
Qed.
End M.
Print Assumptions eval_cover.
