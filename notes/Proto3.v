(* Feasibility prototype (NOT framework code) for the S-model of DESIGN.md 3.3/3.4, one variable:
   resumable generators, per-node persistent state kept in a tree mirroring the expression
   (here: the de-duplication set of every else-if node), a global part (how many domain elements
   were pulled from the one-shot iterator), and the refinement to the pure evaluator of Proto.v. *)
From Coq Require Import List ZArith Bool Lia Arith.
Import ListNotations.
Require Import Proto.

Definition row := (binding * bool)%type.
Definition G := nat.                                   (* elements pulled from the lazy domain *)
Inductive pst := PCmp | PAnd (l r : pst) | PElse (seen : list oid) (l r : pst).

Inductive res :=
| Done  (p : pst) (g : G)
| Yield (a : row) (p : pst) (g : G) (k : G -> res).

(* run r; its snapshots are embedded by [wrap]; when it is exhausted continue with [cont] *)
Fixpoint seq_res (r : res) (wrap : pst -> pst) (cont : pst -> G -> res) : res :=
  match r with
  | Done p g => cont p g
  | Yield a p g k => Yield a (wrap p) g (fun g' => seq_res (k g') wrap cont)
  end.

Fixpoint yield_all (rows : list row) (p : pst) (g : G) (cont : G -> res) : res :=
  match rows with
  | [] => cont g
  | a :: rs => Yield a p g (fun g' => yield_all rs p g' cont)
  end.

(* the variable's lazy, memoised domain: element i costs a pull iff it was not pulled before *)
Fixpoint enum (i : nat) (l : list oid) (f : oid -> list row) (p : pst) (g : G) : res :=
  match l with
  | [] => Done p g
  | o :: l' => yield_all (f o) p (Nat.max g (S i)) (fun g' => enum (S i) l' f p g')
  end.

Definition oid_of (b : binding) : oid := match b with Some o => o | None => 0 end.

Section Loops.
Variable ry : pst -> binding -> G -> res.               (* evaluation of the right operand *)
Variable ywf : bool.

Fixpoint and_loop (rl : res) (py : pst) {struct rl} : res :=
  match rl with
  | Done px' g' => Done (PAnd px' py) g'
  | Yield (b1, f1) px' g' k =>
      if f1 then
        (if ywf then Yield (b1, true) (PAnd px' py) g' (fun g'' => and_loop (k g'') py)
         else and_loop (k g') py)
      else seq_res (ry py b1 g') (fun q => PAnd px' q) (fun py' g'' => and_loop (k g'') py')
  end.

(* right branch of an else-if: true rows are de-duplicated on the (only) variable *)
Fixpoint else_rloop (rr : res) (seen : list oid) (px' : pst) (cont : list oid -> pst -> G -> res)
  {struct rr} : res :=
  match rr with
  | Done py' g'' => cont seen py' g''
  | Yield (b2, f2) py' g'' kr =>
      if f2 then Yield (b2, f2) (PElse seen px' py') g'' (fun g3 => else_rloop (kr g3) seen px' cont)
      else if existsb (Nat.eqb (oid_of b2)) seen then else_rloop (kr g'') seen px' cont
      else Yield (b2, f2) (PElse (oid_of b2 :: seen) px' py') g''
                 (fun g3 => else_rloop (kr g3) (oid_of b2 :: seen) px' cont)
  end.

Fixpoint else_loop (rl : res) (seen : list oid) (py : pst) {struct rl} : res :=
  match rl with
  | Done px' g' => Done (PElse seen px' py) g'
  | Yield (b1, f1) px' g' k =>
      if f1 then else_rloop (ry py b1 g') seen px' (fun seen' py' g'' => else_loop (k g'') seen' py')
      else Yield (b1, false) (PElse seen px' py) g' (fun g'' => else_loop (k g'') seen py)
  end.
End Loops.

Section S.
Variable heap : oid -> nat -> Z.
Variable dom : list oid.
Notation eval := (eval heap dom).
Notation isat := (isat heap).

Fixpoint eval_st (c : inode) (p : pst) (b : binding) (ywf : bool) (g : G) {struct c} : res :=
  match c, p with
  | ICmp o l r, _ =>
      match b with
      | Some _ => yield_all (eval (ICmp o l r) b ywf) PCmp g (fun g' => Done PCmp g')
      | None => enum 0 dom (fun ob => eval (ICmp o l r) (Some ob) ywf) PCmp g
      end
  | IAnd x y, PAnd px py =>
      and_loop (fun q b1 g1 => eval_st y q b1 ywf g1) ywf (eval_st x px b ywf g) py
  | IElseIf x y, PElse seen px py =>
      else_loop (fun q b1 g1 => eval_st y q b1 ywf g1) (eval_st x px b true g) seen py
  | _, _ => Done p g
  end.

(* ---------- behaviour of a generator whatever global state it is resumed with ---------- *)
Inductive Beh : res -> list row -> pst -> Prop :=
| BDone p g : Beh (Done p g) [] p
| BYield a p g k rows pf : (forall g', Beh (k g') rows pf) -> Beh (Yield a p g k) (a :: rows) pf.

Fixpoint drain (r : res) : list row * pst * G :=
  match r with
  | Done p g => ([], p, g)
  | Yield a p g k => let '(l, p', g') := drain (k g) in (a :: l, p', g')
  end.

Lemma Beh_drain r rows pf : Beh r rows pf -> fst (drain r) = (rows, pf).
Proof.
  induction 1 as [p g | a p g k rows pf _ IH]; cbn [drain]; [reflexivity|].
  specialize (IH g). destruct (drain (k g)) as [[l p'] g']. cbn [fst] in *. congruence.
Qed.

Lemma Beh_yield_all rows p g cont l pf :
  (forall g', Beh (cont g') l pf) -> Beh (yield_all rows p g cont) (rows ++ l) pf.
Proof.
  revert g. induction rows as [|a rs IH]; intros g H; cbn [yield_all app]; [apply H|].
  constructor. intros g'. apply IH, H.
Qed.

Lemma Beh_seq_res r wrap cont l1 p1 l2 pf :
  Beh r l1 p1 -> (forall g, Beh (cont p1 g) l2 pf) -> Beh (seq_res r wrap cont) (l1 ++ l2) pf.
Proof.
  induction 1 as [p g | a p g k rows pf' _ IH]; intros H; cbn [seq_res app]; [apply H|].
  constructor. intros g'. apply IH, H.
Qed.

Lemma Beh_yield_all_nil rows p g cont pf :
  (forall g', Beh (cont g') [] pf) -> Beh (yield_all rows p g cont) rows pf.
Proof. intros H. rewrite <- (app_nil_r rows) at 2. apply Beh_yield_all, H. Qed.

Lemma Beh_seq_res_nil r wrap cont l1 p1 pf :
  Beh r l1 p1 -> (forall g, Beh (cont p1 g) [] pf) -> Beh (seq_res r wrap cont) l1 pf.
Proof. intros H1 H2. rewrite <- (app_nil_r l1). eapply Beh_seq_res; eassumption. Qed.

(* ---------- shape and freshness of the persistent state ---------- *)
Fixpoint shape (c : inode) (p : pst) : Prop :=
  match c, p with
  | ICmp _ _ _, PCmp => True
  | IAnd x y, PAnd px py => shape x px /\ shape y py
  | IElseIf x y, PElse _ px py => shape x px /\ shape y py
  | _, _ => False
  end.
Fixpoint fresh (p : pst) (o : oid) : Prop :=
  match p with
  | PCmp => True
  | PAnd l r => fresh l o /\ fresh r o
  | PElse seen l r => ~ In o seen /\ fresh l o /\ fresh r o
  end.

Definition keeps (p p' : pst) (o : oid) : Prop := forall o', o' <> o -> fresh p o' -> fresh p' o'.

Lemma existsb_eqb_false o seen : ~ In o seen -> existsb (Nat.eqb o) seen = false.
Proof.
  intros H. destruct (existsb (Nat.eqb o) seen) eqn:E; [|reflexivity].
  apply existsb_exists in E as (o' & Hin & E). apply Nat.eqb_eq in E; subst. contradiction.
Qed.

(* the persistent state after a fully bound evaluation for a fresh object *)
Fixpoint upd (c : inode) (p : pst) (o : oid) (ywf : bool) : pst :=
  match c, p with
  | IAnd x y, PAnd px py =>
      PAnd (upd x px o ywf) (if isat x o then upd y py o ywf else py)
  | IElseIf x y, PElse seen px py =>
      if isat x o then PElse seen (upd x px o true) py
      else PElse (if isat y o then o :: seen else seen) (upd x px o true) (upd y py o ywf)
  | _, _ => p
  end.

Lemma Beh_nil_inv r pf : Beh r [] pf -> exists g, r = Done pf g.
Proof. inversion 1; subst. eexists; reflexivity. Qed.
Lemma Beh_cons_inv r a rows pf : Beh r (a :: rows) pf ->
  exists p g k, r = Yield a p g k /\ forall g', Beh (k g') rows pf.
Proof. inversion 1; subst. do 3 eexists. split; [reflexivity|assumption]. Qed.

(* resumed with any global state, a continuation that has nothing left is just "done" *)
Ltac finish_k Hk gx := let gg := fresh "gd" in
  destruct (Beh_nil_inv _ _ (Hk gx)) as [gg ->].

(* A fully bound evaluation from a state in which the object is fresh behaves like the pure
   evaluator: de-duplication does not fire, and only this object is added to the seen sets. *)
Lemma st_bound c : forall p o ywf g, shape c p -> fresh p o ->
  Beh (eval_st c p (Some o) ywf g) (eval c (Some o) ywf) (upd c p o ywf) /\
  shape c (upd c p o ywf) /\ keeps p (upd c p o ywf) o.
Proof.
  induction c as [op l r | x IHx y IHy | x IHx y IHy]; intros p o ywf g Hs Hf.
  - destruct p; try contradiction. cbn [eval_st upd]. split; [|split; [exact I|intros ? ? ?; exact I]].
    apply Beh_yield_all_nil. intros; constructor.
  - destruct p as [|px py|]; try contradiction. destruct Hs as [Hsx Hsy]. destruct Hf as [Hfx Hfy].
    destruct (IHx px o ywf g Hsx Hfx) as (Bx & Sx & Kx).
    cbn [eval_st Proto.eval upd]. remember (eval_st x px (Some o) ywf g) as rl eqn:Erl. clear Erl.
    rewrite (eval_bound heap dom x o ywf) in *. unfold out in *.
    destruct (isat x o) eqn:Ex.
    + (* left true: one row, flag false; the right side runs *)
      destruct (Beh_cons_inv _ _ _ _ Bx) as (pl & gl & kl & -> & Hkl).
      cbn [flat_map and_loop]. rewrite andb_false_r, app_nil_r.
      destruct (IHy py o ywf gl Hsy Hfy) as (By & Sy & Ky).
      split; [|split; [split; assumption|]].
      * eapply Beh_seq_res_nil; [exact By|]. intros g1. finish_k Hkl g1. cbn [and_loop]. constructor.
      * intros o' Hne [F1 F2]. split; [apply Kx|apply Ky]; assumption.
    + destruct ywf.
      * destruct (Beh_cons_inv _ _ _ _ Bx) as (pl & gl & kl & -> & Hkl).
        cbn [flat_map and_loop andb app].
        split; [|split; [split; assumption|]].
        -- constructor. intros g1. finish_k Hkl g1. cbn [and_loop]. constructor.
        -- intros o' Hne [F1 F2]. split; [apply Kx|]; assumption.
      * destruct (Beh_nil_inv _ _ Bx) as [gl ->]. cbn [flat_map and_loop].
        split; [constructor|split; [split; assumption|]].
        intros o' Hne [F1 F2]. split; [apply Kx|]; assumption.
  - destruct p as [| |seen px py]; try contradiction. destruct Hs as [Hsx Hsy]. destruct Hf as (Hns & Hfx & Hfy).
    destruct (IHx px o true g Hsx Hfx) as (Bx & Sx & Kx).
    cbn [eval_st Proto.eval upd]. remember (eval_st x px (Some o) true g) as rl eqn:Erl. clear Erl.
    rewrite (eval_bound heap dom x o true) in *. unfold out in *.
    destruct (isat x o) eqn:Ex.
    + (* left true: passed through *)
      destruct (Beh_cons_inv _ _ _ _ Bx) as (pl & gl & kl & -> & Hkl).
      cbn [flat_map else_loop app].
      split; [|split; [split; assumption|]].
      * constructor. intros g1. finish_k Hkl g1. cbn [else_loop]. constructor.
      * intros o' Hne (F0 & F1 & F2). split; [assumption|split; [apply Kx|]; assumption].
    + (* left false: right branch, de-duplicated *)
      destruct (Beh_cons_inv _ _ _ _ Bx) as (pl & gl & kl & -> & Hkl).
      cbn [flat_map else_loop app]. rewrite app_nil_r.
      destruct (IHy py o ywf gl Hsy Hfy) as (By & Sy & Ky).
      remember (eval_st y py (Some o) ywf gl) as rr eqn:Err. clear Err.
      rewrite (eval_bound heap dom y o ywf) in *. unfold out in *.
      destruct (isat y o) eqn:Ey.
      * destruct (Beh_cons_inv _ _ _ _ By) as (pr & gr & kr & -> & Hkr).
        cbn [else_rloop oid_of]. rewrite (existsb_eqb_false o seen Hns).
        split; [|split; [split; assumption|]].
        -- constructor. intros g1. finish_k Hkr g1. cbn [else_rloop].
           match goal with |- Beh (else_loop _ (kl ?gx) _ _) _ _ => finish_k Hkl gx end.
           cbn [else_loop]. constructor.
        -- intros o' Hne (F0 & F1 & F2). split; [|split; [apply Kx|apply Ky]; assumption].
           intros [E|Hin]; [congruence|contradiction].
      * destruct ywf.
        -- destruct (Beh_cons_inv _ _ _ _ By) as (pr & gr & kr & -> & Hkr). cbn [else_rloop].
           split; [|split; [split; assumption|]].
           ++ constructor. intros g1. finish_k Hkr g1. cbn [else_rloop].
              match goal with |- Beh (else_loop _ (kl ?gx) _ _) _ _ => finish_k Hkl gx end.
              cbn [else_loop]. constructor.
           ++ intros o' Hne (F0 & F1 & F2). split; [assumption|split; [apply Kx|apply Ky]; assumption].
        -- destruct (Beh_nil_inv _ _ By) as [gr ->]. cbn [else_rloop].
           split; [|split; [split; assumption|]].
           ++ finish_k Hkl gr. cbn [else_loop]. constructor.
           ++ intros o' Hne (F0 & F1 & F2). split; [assumption|split; [apply Kx|apply Ky]; assumption].
Qed.

(* ---------- the loops over a whole stream of left rows ---------- *)
Notation and_step y ywf :=
  (fun p : row => let '(b1, f1) := p in
     if ywf && f1 then [(b1, true)] else if f1 then [] else eval y b1 ywf).
Notation else_step y ywf :=
  (fun p : row => let '(b1, f1) := p in if f1 then eval y b1 ywf else [(b1, false)]).

Lemma keeps_fresh_rest p p' o os :
  keeps p p' o -> ~ In o os -> (forall o', In o' os -> fresh p o') -> forall o', In o' os -> fresh p' o'.
Proof. intros K Hn H o' Hin. apply K; [intros ->; contradiction|apply H; assumption]. Qed.

Lemma and_loop_rows y ywf (fx : oid -> bool) : forall os rl pxf py,
  NoDup os -> shape y py -> (forall o, In o os -> fresh py o) ->
  Beh rl (flat_map (fun o => out o (fx o) ywf) os) pxf ->
  let pyf := fold_left (fun q o => if fx o then upd y q o ywf else q) os py in
  Beh (and_loop (fun q b1 g1 => eval_st y q b1 ywf g1) ywf rl py)
      (flat_map (and_step y ywf) (flat_map (fun o => out o (fx o) ywf) os)) (PAnd pxf pyf)
  /\ shape y pyf /\ (forall o', ~ In o' os -> fresh py o' -> fresh pyf o').
Proof.
  induction os as [|o os IH]; intros rl pxf py Hnd Hs Hf B; cbn [flat_map fold_left] in *.
  - destruct (Beh_nil_inv _ _ B) as [g ->]. cbn [and_loop]. split; [constructor|split; [assumption|auto]].
  - inversion Hnd as [|? ? Hnin Hnd']; subst.
    assert (fresh py o) as Hfo by (apply Hf; left; reflexivity).
    assert (forall o', In o' os -> fresh py o') as Hf' by (intros; apply Hf; right; assumption).
    unfold out in B |- * at 1. unfold out at 1.
    destruct (fx o) eqn:Ex.
    + (* left true for o: the right side runs *)
      cbn [app] in B. destruct (Beh_cons_inv _ _ _ _ B) as (pl & gl & kl & -> & Hkl).
      cbn [app flat_map and_loop]. rewrite andb_false_r.
      destruct (st_bound y py o ywf gl Hs Hfo) as (By & Sy & Ky).
      assert (forall o', In o' os -> fresh (upd y py o ywf) o') as Hf2
        by (eapply keeps_fresh_rest; eassumption).
      split; [|split].
      * eapply Beh_seq_res; [exact By|]. intros g1.
        apply (IH (kl g1) pxf (upd y py o ywf) Hnd' Sy Hf2 (Hkl g1)).
      * apply (IH (kl gl) pxf (upd y py o ywf) Hnd' Sy Hf2 (Hkl gl)).
      * intros o' Hn' F. apply (IH (kl gl) pxf (upd y py o ywf) Hnd' Sy Hf2 (Hkl gl)).
        -- intros Hin; apply Hn'; right; assumption.
        -- apply Ky; [intros ->; apply Hn'; left; reflexivity|assumption].
    + destruct ywf.
      * cbn [app] in B. destruct (Beh_cons_inv _ _ _ _ B) as (pl & gl & kl & -> & Hkl).
        cbn [app flat_map and_loop andb]. split; [|split].
        -- constructor. intros g1. apply (IH (kl g1) pxf py Hnd' Hs Hf' (Hkl g1)).
        -- apply (IH (kl gl) pxf py Hnd' Hs Hf' (Hkl gl)).
        -- intros o' Hn' F. apply (IH (kl gl) pxf py Hnd' Hs Hf' (Hkl gl)); [|assumption].
           intros Hin; apply Hn'; right; assumption.
      * cbn [app] in B |- *. destruct (IH rl pxf py Hnd' Hs Hf' B) as (B' & S' & K'). split; [exact B'|split; [exact S'|]].
        intros o' Hn' F. apply K'; [|assumption]. intros Hin; apply Hn'; right; assumption.
Qed.

Lemma else_loop_rows y ywf (fx : oid -> bool) : forall os rl pxf seen py,
  NoDup os -> shape y py -> (forall o, In o os -> ~ In o seen /\ fresh py o) ->
  Beh rl (flat_map (fun o => out o (fx o) true) os) pxf ->
  let seenf := fold_left (fun sn o => if fx o then sn else if isat y o then o :: sn else sn) os seen in
  let pyf := fold_left (fun q o => if fx o then q else upd y q o ywf) os py in
  Beh (else_loop (fun q b1 g1 => eval_st y q b1 ywf g1) rl seen py)
      (flat_map (else_step y ywf) (flat_map (fun o => out o (fx o) true) os)) (PElse seenf pxf pyf)
  /\ shape y pyf
  /\ (forall o', ~ In o' os -> ~ In o' seen -> fresh py o' -> ~ In o' seenf /\ fresh pyf o').
Proof.
  induction os as [|o os IH]; intros rl pxf seen py Hnd Hs Hf B; cbn [flat_map fold_left] in *.
  - destruct (Beh_nil_inv _ _ B) as [g ->]. cbn [else_loop]. split; [constructor|split; [assumption|auto]].
  - inversion Hnd as [|? ? Hnin Hnd']; subst.
    destruct (Hf o (or_introl eq_refl)) as [Hns Hfo].
    assert (forall o', In o' os -> ~ In o' seen /\ fresh py o') as Hf' by (intros; apply Hf; right; assumption).
    unfold out in B |- * at 1. unfold out at 1.
    destruct (fx o) eqn:Ex; cbn [app] in B; destruct (Beh_cons_inv _ _ _ _ B) as (pl & gl & kl & -> & Hkl);
      cbn [app flat_map else_loop].
    + (* left true for o: the row is passed through *)
      split; [|split].
      * constructor. intros g1. apply (IH (kl g1) pxf seen py Hnd' Hs Hf' (Hkl g1)).
      * apply (IH (kl gl) pxf seen py Hnd' Hs Hf' (Hkl gl)).
      * intros o' Hn' N F. apply (IH (kl gl) pxf seen py Hnd' Hs Hf' (Hkl gl)); try assumption.
        intros Hin; apply Hn'; right; assumption.
    + (* left false for o: the right side runs for o, de-duplicated *)
      destruct (st_bound y py o ywf gl Hs Hfo) as (By & Sy & Ky).
      remember (eval_st y py (Some o) ywf gl) as rr eqn:Err. clear Err.
      rewrite (eval_bound heap dom y o ywf) in *. unfold out in By |- *.
      destruct (isat y o) eqn:Ey.
      * (* one true row: recorded in the seen set *)
        destruct (Beh_cons_inv _ _ _ _ By) as (pr & gr & kr & -> & Hkr).
        cbn [else_rloop oid_of app]. rewrite (existsb_eqb_false o seen Hns).
        assert (forall o', In o' os -> ~ In o' (o :: seen) /\ fresh (upd y py o ywf) o') as Hf2.
        { intros o' Hin. destruct (Hf' o' Hin) as [N F]. split.
          - intros [E|Hin']; [subst; contradiction|contradiction].
          - apply Ky; [intros ->; contradiction|assumption]. }
        split; [|split].
        -- constructor. intros g1. finish_k Hkr g1. cbn [else_rloop].
           match goal with |- Beh (else_loop _ (kl ?gx) _ _) _ _ =>
             apply (IH (kl gx) pxf (o :: seen) (upd y py o ywf) Hnd' Sy Hf2 (Hkl gx)) end.
        -- apply (IH (kl gl) pxf (o :: seen) (upd y py o ywf) Hnd' Sy Hf2 (Hkl gl)).
        -- intros o' Hn' N F. apply (IH (kl gl) pxf (o :: seen) (upd y py o ywf) Hnd' Sy Hf2 (Hkl gl)).
           ++ intros Hin; apply Hn'; right; assumption.
           ++ intros [E|Hin]; [subst; apply Hn'; left; reflexivity|contradiction].
           ++ apply Ky; [intros ->; apply Hn'; left; reflexivity|assumption].
      * assert (forall o', In o' os -> ~ In o' seen /\ fresh (upd y py o ywf) o') as Hf2.
        { intros o' Hin. destruct (Hf' o' Hin) as [N F]. split; [assumption|].
          apply Ky; [intros ->; contradiction|assumption]. }
        destruct ywf.
        -- destruct (Beh_cons_inv _ _ _ _ By) as (pr & gr & kr & -> & Hkr). cbn [else_rloop app].
           split; [|split].
           ++ constructor. intros g1. finish_k Hkr g1. cbn [else_rloop].
              match goal with |- Beh (else_loop _ (kl ?gx) _ _) _ _ =>
                apply (IH (kl gx) pxf seen (upd y py o true) Hnd' Sy Hf2 (Hkl gx)) end.
           ++ apply (IH (kl gl) pxf seen (upd y py o true) Hnd' Sy Hf2 (Hkl gl)).
           ++ intros o' Hn' N F. apply (IH (kl gl) pxf seen (upd y py o true) Hnd' Sy Hf2 (Hkl gl)); try assumption.
              ** intros Hin; apply Hn'; right; assumption.
              ** apply Ky; [intros ->; apply Hn'; left; reflexivity|assumption].
        -- destruct (Beh_nil_inv _ _ By) as [gr ->]. cbn [else_rloop app].
           split; [|split].
           ++ apply (IH (kl gr) pxf seen (upd y py o false) Hnd' Sy Hf2 (Hkl gr)).
           ++ apply (IH (kl gl) pxf seen (upd y py o false) Hnd' Sy Hf2 (Hkl gl)).
           ++ intros o' Hn' N F. apply (IH (kl gl) pxf seen (upd y py o false) Hnd' Sy Hf2 (Hkl gl)); try assumption.
              ** intros Hin; apply Hn'; right; assumption.
              ** apply Ky; [intros ->; apply Hn'; left; reflexivity|assumption].
Qed.

Lemma Beh_enum f p : forall l i g, Beh (enum i l f p g) (flat_map f l) p.
Proof.
  induction l as [|o l IH]; intros i g; cbn [enum flat_map]; [constructor|].
  apply Beh_yield_all. intros g'. apply IH.
Qed.

Lemma left_rows x ywf : leaves_var x = true ->
  eval x None ywf = flat_map (fun o => out o (isat x o) ywf) dom.
Proof.
  intros H. rewrite (eval_unbound heap dom x ywf H). apply flat_map_ext. intros o. apply eval_bound.
Qed.

(* Root: the stateful evaluation of a query over an unbound variable, from a state in which every
   domain object is fresh, produces exactly the rows of the pure evaluator, in the same order. *)
Theorem st_unbound c : forall p ywf g, leaves_var c = true -> NoDup dom -> shape c p ->
  (forall o, In o dom -> fresh p o) ->
  exists pf, Beh (eval_st c p None ywf g) (eval c None ywf) pf.
Proof.
  induction c as [op l r | x IHx y IHy | x IHx y IHy]; intros p ywf g Hl Hnd Hs Hf.
  - destruct p; try contradiction. exists PCmp. cbn [eval_st].
    rewrite (eval_unbound heap dom (ICmp op l r) ywf Hl). apply Beh_enum.
  - destruct p as [|px py|]; try contradiction. destruct Hs as [Hsx Hsy].
    cbn [leaves_var] in Hl. apply andb_prop in Hl as [Hlx Hly].
    destruct (IHx px ywf g Hlx Hnd Hsx (fun o Hin => proj1 (Hf o Hin))) as (pxf & Bx).
    rewrite (left_rows x ywf Hlx) in Bx.
    destruct (and_loop_rows y ywf (isat x) dom _ pxf py Hnd Hsy (fun o Hin => proj2 (Hf o Hin)) Bx) as (B & _ & _).
    eexists. cbn [eval_st Proto.eval]. rewrite (left_rows x ywf Hlx). exact B.
  - destruct p as [| |seen px py]; try contradiction. destruct Hs as [Hsx Hsy].
    assert (leaves_var (IElseIf x y) = true) as Hl0 by exact Hl.
    cbn [leaves_var] in Hl. apply andb_prop in Hl as [Hlx Hly].
    destruct (IHx px true g Hlx Hnd Hsx (fun o Hin => proj1 (proj2 (Hf o Hin)))) as (pxf & Bx).
    rewrite (left_rows x true Hlx) in Bx.
    destruct (else_loop_rows y ywf (isat x) dom _ pxf seen py Hnd Hsy
                (fun o Hin => conj (proj1 (Hf o Hin)) (proj2 (proj2 (Hf o Hin)))) Bx) as (B & _ & _).
    eexists. cbn [eval_st]. rewrite (eval_unbound heap dom (IElseIf x y) ywf Hl0).
    rewrite flat_map_flat_map in B.
    erewrite flat_map_ext; [exact B|]. intros o. cbn [Proto.eval]. rewrite (eval_bound heap dom x o true).
    unfold out. destruct (isat x o); reflexivity.
Qed.

(* consequence for the consumer that drains the generator: same rows as the pure evaluator,
   hence (Proto.proto_C01) exactly the qualifying domain objects, in domain order, once each *)
Fixpoint fresh_state (c : inode) : pst :=
  match c with ICmp _ _ _ => PCmp | IAnd x y => PAnd (fresh_state x) (fresh_state y)
             | IElseIf x y => PElse [] (fresh_state x) (fresh_state y) end.
Lemma fresh_state_ok c : shape c (fresh_state c) /\ forall o, fresh (fresh_state c) o.
Proof. induction c as [| x [Sx Fx] y [Sy Fy] | x [Sx Fx] y [Sy Fy]]; cbn; auto. Qed.

Corollary st_C01 c g : leaves_var c = true -> NoDup dom ->
  map fst (fst (fst (drain (eval_st c (fresh_state c) None false g)))) = map Some (filter (isat c) dom).
Proof.
  intros Hl Hnd. destruct (fresh_state_ok c) as [Sc Fc].
  destruct (st_unbound c (fresh_state c) false g Hl Hnd Sc (fun o _ => Fc o)) as (pf & B).
  apply Beh_drain in B. destruct (drain _) as [[rows p'] g']. cbn [fst] in *. injection B as -> _.
  apply proto_C01. exact Hl.
Qed.
End S.
Print Assumptions st_C01.
