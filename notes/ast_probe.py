import ast, sys
src=open('/repo/src/entity_query_language/symbolic.py').read()
t=ast.parse(src)
def find(node, name, cls=None):
    for n in ast.walk(node):
        if isinstance(n,(ast.FunctionDef,)) and n.name==name: yield n
# inverse table
for c in [n for n in t.body if isinstance(n, ast.ClassDef) and n.name=='Comparator']:
    for f in c.body:
        if isinstance(f, ast.FunctionDef) and f.name=='_invert_' and any(isinstance(d, ast.Attribute) and d.attr=='setter' for d in f.decorator_list):
            for st in f.body:
                if isinstance(st, ast.Match):
                    for case in st.cases:
                        pat = ast.unparse(case.pattern)
                        body = ast.unparse(case.body[-1]) if case.body else ''
                        print("  case", pat, "=>", body[:90].replace('\n',' | '))
# dunders
for c in [n for n in t.body if isinstance(n, ast.ClassDef) and n.name=='CanBehaveLikeAVariable']:
    for f in c.body:
        if isinstance(f, ast.FunctionDef) and f.name.startswith('__') and isinstance(f.body[-1], ast.Return):
            print("  dunder", f.name, "=>", ast.unparse(f.body[-1].value))
# Not
for f in t.body:
    if isinstance(f, ast.FunctionDef) and f.name in ('Not','chained_logic','_optimize_or'):
        print("  fn", f.name, [type(s).__name__ for s in f.body])
e=ast.parse(open('/repo/src/entity_query_language/entity.py').read())
for f in e.body:
    if isinstance(f, ast.FunctionDef) and f.name in ('in_','contains','and_','or_','not_','flatten','concatenate','for_all'):
        print("  entity", f.name, "=>", ast.unparse(f.body[-1]))
