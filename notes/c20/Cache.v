(* Prototype (NOT framework code) of the C-model of IndexedCache / SeenSet (cache_data.py).
   Keys and values are nat; Python dicts are insertion-ordered association lists. *)
From Coq Require Import List Arith Bool String DecimalString.
Import ListNotations.

Definition key := nat.
Definition value := nat.
Definition assignment := list (key * value).          (* a Python dict, insertion ordered *)
Fixpoint aget (a : assignment) (k : key) : option value :=
  match a with [] => None | (k', v) :: a' => if Nat.eqb k k' then Some v else aget a' k end.
Fixpoint aset (a : assignment) (k : key) (v : value) : assignment :=
  match a with
  | [] => [(k, v)]
  | (k', v') :: a' => if Nat.eqb k k' then (k', v) :: a' else (k', v') :: aset a' k v
  end.

Inductive ckey := CAll | CVal (v : value).            (* the All sentinel / a concrete value *)
Definition ckey_eqb (a b : ckey) : bool :=
  match a, b with CAll, CAll => true | CVal x, CVal y => Nat.eqb x y | _, _ => false end.

(* the nested CacheDict: inner levels map to sub-dicts, the last level maps to outputs *)
Inductive trie := Leaf (out : nat) | Node (children : list (ckey * trie)).

Fixpoint tget (l : list (ckey * trie)) (c : ckey) : option trie :=
  match l with [] => None | (c', t) :: l' => if ckey_eqb c c' then Some t else tget l' c end.
Fixpoint tset (l : list (ckey * trie)) (c : ckey) (t : trie) : list (ckey * trie) :=
  match l with
  | [] => [(c, t)]
  | (c', t') :: l' => if ckey_eqb c c' then (c', t) :: l' else (c', t') :: tset l' c t
  end.

(* ---- SeenSet ---- *)
Record seenset := { seen : list assignment; all_seen : bool }.
Definition ss_empty := {| seen := []; all_seen := false |}.
Definition ss_add (s : seenset) (a : assignment) : seenset :=
  if all_seen s then s
  else {| seen := seen s ++ [a]; all_seen := match a with [] => true | _ => false end |}.
(* constraint <= assignment *)
Definition covers (c a : assignment) : bool :=
  forallb (fun kv => match aget a (fst kv) with Some v => Nat.eqb v (snd kv) | None => false end) c.
Definition ss_check (s : seenset) (a : assignment) : bool * seenset :=
  if all_seen s then (true, s)
  else match a with
       | [] => (false, {| seen := seen s ++ [a]; all_seen := true |})
       | _ => (existsb (fun c => covers c a) (seen s), s)
       end.

(* ---- IndexedCache (index=True path; keys already sorted) ---- *)
Record icache := { keys : list key; root : list (ckey * trie); sset : seenset; flat : list nat }.
Definition ic_new (ks : list key) := {| keys := ks; root := []; sset := ss_empty; flat := [] |}.

Fixpoint insert_at (ks : list key) (a : assignment) (out : nat) (l : list (ckey * trie)) : list (ckey * trie) :=
  match ks with
  | [] => l
  | [k] => tset l (match aget a k with Some v => CVal v | None => CAll end) (Leaf out)
  | k :: ks' =>
      let c := match aget a k with Some v => CVal v | None => CAll end in
      let sub := match tget l c with Some (Node ch) => ch | _ => [] end in
      tset l c (Node (insert_at ks' a out sub))
  end.

Definition ic_insert (c : icache) (a : assignment) (out : nat) : icache :=
  match a with
  | [] => {| keys := keys c; root := root c; sset := sset c; flat := flat c ++ [out] |}
  | _ => {| keys := keys c; root := insert_at (keys c) a out (root c); sset := ss_add (sset c) a; flat := flat c |}
  end.

Definition restrict (ks : list key) (a : assignment) : assignment :=
  filter (fun kv => existsb (Nat.eqb (fst kv)) ks) a.
Definition ic_check (c : icache) (a : assignment) : bool * icache :=
  let '(b, s') := ss_check (sset c) (restrict (keys c) a) in
  (b, {| keys := keys c; root := root c; sset := s'; flat := flat c |}).

(* retrieve: [walk] is the `while key in assignment` loop + the final dispatch; [descend] is
   _yield_result.  Structural recursion on the list of remaining keys. *)
Fixpoint retrieve_at (ks : list key) (a : assignment) (l : list (ckey * trie)) (res : assignment)
  : list (assignment * nat) :=
  match ks with
  | [] => []
  | k :: ks' =>
      let descend (t : trie) (res' : assignment) :=
        match t with Leaf o => [(res', o)] | Node ch => retrieve_at ks' a ch res' end in
      match l with
      | [] => []                                        (* fast return on an empty cache node *)
      | _ =>
        match aget a k with
        | Some v =>
            match tget l (CVal v) with
            | None => match tget l CAll with Some w => descend w res | None => [] end
            | Some t => descend t res                   (* follow the concrete chain *)
            end
        | None =>
            match tget l CAll with
            | Some w => descend w res                    (* prefer the wildcard branch *)
            | None => flat_map (fun ct => match fst ct with
                                           | CVal v => descend (snd ct) (aset res k v)
                                           | CAll => descend (snd ct) res end) l
            end
        end
      end
  end.
Definition ic_retrieve (c : icache) (a : assignment) : list (assignment * nat) :=
  retrieve_at (keys c) a (root c) a.

(* ---- printing ---- *)
Open Scope string_scope.
Definition sn (n : nat) : string := NilEmpty.string_of_uint (Nat.to_uint n).
Definition show_asg (a : assignment) : string :=
  "{" ++ String.concat "," (map (fun kv => sn (fst kv) ++ ":" ++ sn (snd kv)) a) ++ "}".
Definition show_res (r : list (assignment * nat)) : string :=
  "[" ++ String.concat ";" (map (fun ao => show_asg (fst ao) ++ "=" ++ sn (snd ao)) r) ++ "]".
