import sys, random, subprocess, re
sys.path.insert(0,'/repo/src')
from entity_query_language.cache_data import IndexedCache
def gen_hist(rng):
    nk = rng.randint(1,3); keys = sorted(rng.sample(range(1,6), nk))
    ops=[]
    def asg(p_bind):
        return {k: rng.randint(0,2) for k in keys if rng.random()<p_bind}
    for _ in range(rng.randint(1,7)):
        r=rng.random()
        if r<0.55: ops.append(('ins', asg(0.7), rng.randint(0,9)))
        elif r<0.75: ops.append(('chk', asg(0.6)))
        else: ops.append(('ret', asg(0.5)))
    ops.append(('ret', asg(0.4)))
    return keys, ops
def show_asg(a): return "{"+",".join(f"{k}:{v}" for k,v in a.items())+"}"
def run_py(keys, ops):
    c=IndexedCache(list(keys)); out=[]
    for op in ops:
        if op[0]=='ins': c.insert(dict(op[1]), op[2])
        elif op[0]=='chk': out.append('T' if c.check(dict(op[1])) else 'F')
        else:
            res=list(c.retrieve(dict(op[1])))
            out.append("["+";".join(show_asg(a)+"="+str(o) for a,o in res)+"]")
    return " ".join(out)
def coq_asg(a): return "["+";".join(f"({k},{v})" for k,v in a.items())+"]"
def coq_case(i, keys, ops):
    lines=[f"Definition c{i}_0 := ic_new [{';'.join(map(str,keys))}]."]
    outs=[]; n=0
    for op in ops:
        if op[0]=='ins':
            lines.append(f"Definition c{i}_{n+1} := ic_insert c{i}_{n} {coq_asg(op[1])} {op[2]}."); n+=1
        elif op[0]=='chk':
            lines.append(f"Definition c{i}_{n+1} := snd (ic_check c{i}_{n} {coq_asg(op[1])})."); 
            outs.append(f'(if fst (ic_check c{i}_{n} {coq_asg(op[1])}) then "T" else "F")'); n+=1
        else:
            outs.append(f"show_res (ic_retrieve c{i}_{n} {coq_asg(op[1])})")
    lines.append(f'Eval vm_compute in ("CASE {i} " ++ String.concat " " [{"; ".join(outs)}]).')
    return "\n".join(lines)
N=int(sys.argv[1]); seed=int(sys.argv[2])
rng=random.Random(seed)
cases=[gen_hist(rng) for _ in range(N)]
with open('cases.v','w') as f:
    f.write("Require Import Cache.\nFrom Coq Require Import List String.\nImport ListNotations.\nOpen Scope string_scope.\nSet Printing Width 1000000.\n")
    for i,(k,o) in enumerate(cases): f.write(coq_case(i,k,o)+"\n")
out=subprocess.run(['coqc','cases.v'],capture_output=True,text=True)
if out.returncode: print(out.stderr[:2000]); sys.exit(2)
model={}
for m in re.finditer(r'= "CASE (\d+) (.*)"', out.stdout): model[int(m.group(1))]=m.group(2)
bad=0
for i,(k,o) in enumerate(cases):
    py=run_py(k,o)
    if model.get(i)!=py:
        bad+=1
        if bad<=3: print("DIFF", i, k, o, "\n  py   :", py, "\n  model:", model.get(i))
print("cases", N, "disagreements", bad)
