import sys, random, itertools
sys.path.insert(0,'/repo/src')
from entity_query_language.cache_data import IndexedCache
# reference: entries keyed by key-vector (None = wildcard), overwrite keeps position
def ref_retrieve(keys, inserts, lookup):
    ents={}
    for a,o in inserts:
        if not a: continue
        ents[tuple(a.get(k) for k in keys)]=(a,o)
    res=[]
    for vec,(a,o) in ents.items():
        if all((k not in lookup) or (a.get(k) is None) or a[k]==lookup[k] for k in keys):
            m=dict(lookup); m.update(a); res.append((tuple(sorted(m.items())),o))
    return sorted(res)
best=None
for nk in (1,2):
    keys=list(range(1,nk+1))
    vals=[0,1]
    asgs=[dict(zip(ks,vs)) for r in range(1,nk+1) for ks in itertools.combinations(keys,r) for vs in itertools.product(vals,repeat=r)]
    lookups=[{}]+asgs
    for n in (1,2):
        for ins in itertools.product(asgs, repeat=n):
            inserts=[(a,i+1) for i,a in enumerate(ins)]
            c=IndexedCache(list(keys))
            for a,o in inserts: c.insert(dict(a),o)
            for L in lookups:
                got=sorted((tuple(sorted(a.items())),o) for a,o in c.retrieve(dict(L)))
                exp=ref_retrieve(keys,inserts,L)
                if got!=exp and best is None:
                    best=(keys,inserts,L,got,exp)
print(best)
