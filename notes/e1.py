import sys
sys.path.insert(0,'/repo/src')
from dataclasses import dataclass, field
from typing import List
from entity_query_language import *
from entity_query_language.symbolic import Variable

@symbol
@dataclass(eq=False)
class P:
    a: int
    b: int = 0
    s: str = ""
    items: list = field(default_factory=list)
    def big(self): return self.a > 1
    def __repr__(self): return f"P({self.a},{self.b})"

dom = [P(0,0), P(1,0), P(2,1), P(3,1,"x")]
with symbolic_mode():
    x = let(P, dom)
    q = an(entity(x, x.a == 0))
print("a==0:", list(q.evaluate()))
with symbolic_mode():
    x = let(P, dom)
    q = an(entity(x, x.b < 1))
print("b<1:", list(q.evaluate()))
with symbolic_mode():
    x = let(P, dom)
    q = an(entity(x, x.s == ""))
print("s=='':", list(q.evaluate()))
with symbolic_mode():
    x = let(P, dom)
    q = an(entity(x, x.a >= 0))
print("a>=0:", list(q.evaluate()))
with symbolic_mode():
    x = let(P, dom)
    q = an(entity(x, not_(x.a > 1)))
print("not a>1:", list(q.evaluate()))
with symbolic_mode():
    x = let(P, dom)
    q = an(entity(x, not_(not_(x.a > 1))))
print("not not a>1:", list(q.evaluate()))
with symbolic_mode():
    x = let(P, dom)
    q = an(entity(x, x.big()))
print("big():", list(q.evaluate()))
with symbolic_mode():
    x = let(P, dom)
    q = an(entity(x, not_(x.big())))
print("not big():", list(q.evaluate()))
