import sys, os, gc, traceback
sys.path.insert(0, os.environ.get('EQL_SRC','/repo/src'))
from dataclasses import dataclass, field
from entity_query_language import *
from entity_query_language.entity import infer
from entity_query_language.symbolic import Variable
from entity_query_language.cache_data import disable_caching
if os.environ.get('NOCACHE'): disable_caching()

@symbol
@dataclass(eq=False)
class P:
    a: int
    b: int = 1
    def __repr__(self): return f"P({self.a},{self.b})"
@symbol
@dataclass(eq=False)
class Pair:
    l: P
    r: P
    tag: object = None
    def __repr__(self): return f"Pair({self.l},{self.r},{self.tag})"
@symbol
@dataclass(eq=False)
class Wrap:
    inner: Pair
    n: int = 5
    def __repr__(self): return f"Wrap({self.inner},{self.n})"

dom = [P(1,1), P(2,1), P(3,2)]
def show(title, f):
    try: print(title, f())
    except Exception as e:
        traceback.print_exc(limit=-3)
        print(title, "EXC", type(e).__name__, str(e)[:200])

with rule_mode():
    x = let(P, dom); y = let(P, dom)
    q = infer(entity(Pair(l=x, r=y), x.a < y.a))
show("infer join:", lambda: list(q.evaluate()))
show("infer join again:", lambda: list(q.evaluate()))
with rule_mode():
    x = let(P, dom); y = let(P, dom)
    q = infer(entity(Pair(l=x, r=y, tag=7), x.a < y.a, x.b == y.b))
show("infer const:", lambda: list(q.evaluate()))
with rule_mode():
    x = let(P, dom); y = let(P, dom)
    q = infer(entity(Pair(l=x, r=y, tag=x.a), x.a < y.a, x.b == y.b))
show("infer attr:", lambda: list(q.evaluate()))
with rule_mode():
    x = let(P, dom); y = let(P, dom)
    q = infer(entity(Wrap(inner=Pair(l=x, r=y), n=y.b), x.a < y.a, x.b == y.b))
show("infer nested:", lambda: list(q.evaluate()))
with rule_mode():
    x = let(P, dom); y = let(P, dom)
    q = infer(entity(Pair(l=x, r=y), x.a > y.a + 5 if False else x.a > 7))
show("infer zero:", lambda: list(q.evaluate()))
with rule_mode():
    x = let(P, dom); y = let(P, dom)
    q = infer(entity(Pair(l=x, r=y), or_(x.a == 1, y.a == 3)))
show("infer or:", lambda: list(q.evaluate()))
with rule_mode():
    x = let(P, dom); y = let(P, dom)
    q = infer(entity(Pair(l=x, r=y), not_(x.a >= y.a)))
show("infer not:", lambda: list(q.evaluate()))
with rule_mode():
    x = let(P, dom); y = let(P, dom)
    q = infer(entity(Pair(x, y), x.a < y.a))
show("infer positional:", lambda: list(q.evaluate()))
# falsy field
with rule_mode():
    x = let(P, dom); y = let(P, dom)
    q = infer(entity(Pair(l=x, r=y, tag=0), x.a < y.a, x.b == y.b))
show("infer const 0:", lambda: list(q.evaluate()))
# registry after inference
with symbolic_mode():
    q2 = an(entity(let(Pair)))
show("registry Pair count:", lambda: len(list(q2.evaluate())))
