import sys, os, gc, traceback
sys.path.insert(0, os.environ.get('EQL_SRC','/repo/src'))
from dataclasses import dataclass, field
from entity_query_language import *
from entity_query_language.entity import infer
from entity_query_language.rule import refinement, alternative, next_rule
from entity_query_language.symbolic import Variable
from entity_query_language.cache_data import disable_caching
if os.environ.get('NOCACHE'): disable_caching()

@symbol
@dataclass(eq=False)
class P:
    a: int
    b: int = 1
    def __repr__(self): return f"P({self.a},{self.b})"
@symbol
@dataclass(eq=False)
class V:
    p: P
    def __repr__(self): return f"{type(self).__name__}({self.p.a})"
@symbol
@dataclass(eq=False)
class A(V): pass
@symbol
@dataclass(eq=False)
class B(V): pass
@symbol
@dataclass(eq=False)
class C(V): pass
@symbol
@dataclass(eq=False)
class D(V): pass

dom = [P(i, i%2) for i in range(1,9)]
def show(title, f):
    try: print(title, f())
    except Exception as e:
        traceback.print_exc(limit=-4)
        print(title, "EXC", type(e).__name__, str(e)[:200])
def base():
    x = let(P, dom)
    with symbolic_mode():
        q = an(entity(v := let(V), x.a >= 1))
    return x, v, q
# 1. refinement within refinement
x, v, q = base()
with rule_mode(q):
    Add(v, A(p=x))
    with refinement(x.a > 2):
        Add(v, B(p=x))
        with refinement(x.a > 5):
            Add(v, C(p=x))
show("ref in ref (expect A1 A2 B3 B4 B5 C6 C7 C8):", lambda: list(q.evaluate()))
# 2. refinement under alternative
x, v, q = base()
with symbolic_mode():
    q = an(entity(v := let(V), x.a <= 4))
with rule_mode(q):
    Add(v, A(p=x))
    with alternative(x.a >= 5):
        Add(v, B(p=x))
        with refinement(x.a > 6):
            Add(v, C(p=x))
show("ref under alt (expect A1-4 B5 B6 C7 C8):", lambda: list(q.evaluate()))
# 3. alternative under refinement
x, v, q = base()
with rule_mode(q):
    Add(v, A(p=x))
    with refinement(x.a > 6):
        Add(v, B(p=x))
        with alternative(x.a < 3):
            Add(v, C(p=x))
show("alt under ref (expect C1 C2 A3-6 B7 B8):", lambda: list(q.evaluate()))
# 4. chain of alternatives
with symbolic_mode():
    x = let(P, dom)
    q = an(entity(v := let(V), x.a <= 2))
with rule_mode(q):
    Add(v, A(p=x))
    with alternative(x.a <= 4):
        Add(v, B(p=x))
    with alternative(x.a <= 6):
        Add(v, C(p=x))
show("alt chain (expect A1 A2 B3 B4 C5 C6):", lambda: list(q.evaluate()))
# 5. two sibling refinements
x, v, q = base()
with rule_mode(q):
    Add(v, A(p=x))
    with refinement(x.a > 6):
        Add(v, B(p=x))
    with refinement(x.a < 3):
        Add(v, C(p=x))
show("sibling refs:", lambda: list(q.evaluate()))
