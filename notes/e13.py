import sys, os, gc, traceback
sys.path.insert(0, os.environ.get('EQL_SRC','/repo/src'))
from dataclasses import dataclass, field
from entity_query_language import *
from entity_query_language.entity import infer
from entity_query_language.symbolic import Variable
from entity_query_language.cache_data import disable_caching
if os.environ.get('NOCACHE'): disable_caching()

@symbol
@dataclass(eq=False)
class P:
    a: int
    b: int = 1
    def __repr__(self): return f"{type(self).__name__}({self.a},{self.b})"
@dataclass(eq=False)
class Q(P):   # undecorated subclass
    pass
@symbol
@dataclass(eq=False)
class R(P):
    c: int = 0
class Other:
    def __repr__(self): return "Other"
@symbol
@dataclass(eq=False)
class Pair:
    l: P
    r: P
    def __repr__(self): return f"Pair({self.l},{self.r})"
def show(title, f):
    try: print(title, f())
    except Exception as e:
        print(title, "EXC", type(e).__name__, str(e)[:200])
p1,p2,q1,r1 = P(1,1), P(2,5), Q(3,1), R(4,5,6)
mixed = [p1, Other(), q1, 3, r1, p2]
try:
    with symbolic_mode(): q = an(entity(P(From(mixed))))
except Exception as e:
    print("BUILD EXC", type(e).__name__, e); q = None
show("P from mixed:", lambda: list(q.evaluate()))
try:
    with symbolic_mode(): q = an(entity(let(P, mixed)))
except Exception as e:
    print("BUILD EXC", type(e).__name__, e); q = None
show("let P mixed:", lambda: list(q.evaluate()))
try:
    with symbolic_mode(): q = an(entity(R(From(mixed))))
except Exception as e:
    print("BUILD EXC", type(e).__name__, e); q = None
show("R from mixed:", lambda: list(q.evaluate()))
try:
    with symbolic_mode(): q = an(entity(P(From(mixed), b=5)))
except Exception as e:
    print("BUILD EXC", type(e).__name__, e); q = None
show("P kw b=5:", lambda: list(q.evaluate()))
try:
    with symbolic_mode(): q = an(entity(P(From(mixed), 2)))
except Exception as e:
    print("BUILD EXC", type(e).__name__, e); q = None
show("P positional a=2:", lambda: list(q.evaluate()))
try:
    with symbolic_mode(): q = an(entity(P(From(mixed), 2, 5)))
except Exception as e:
    print("BUILD EXC", type(e).__name__, e); q = None
show("P positional a=2,b=5:", lambda: list(q.evaluate()))
try:
    with symbolic_mode(): q = an(entity(P(From(mixed), 4, b=5)))
except Exception as e:
    print("BUILD EXC", type(e).__name__, e); q = None
show("P positional a=4,kw b=5:", lambda: list(q.evaluate()))
pairs = [Pair(p1,p2), Pair(p2,q1), Pair(q1, r1)]
try:
    with symbolic_mode(): q = an(entity(Pair(From(pairs), l=P(From(mixed), a=2))))
except Exception as e:
    print("BUILD EXC", type(e).__name__, e); q = None
show("nested kw:", lambda: list(q.evaluate()))
try:
    with symbolic_mode(): q = an(entity(Pair(From(pairs), P(From(mixed), a=2))))
except Exception as e:
    print("BUILD EXC", type(e).__name__, e); q = None
show("nested positional:", lambda: list(q.evaluate()))
try:
    with symbolic_mode(): q = an(entity(Pair(From(pairs), P(From(mixed), 2), R(From(mixed)))))
except Exception as e:
    print("BUILD EXC", type(e).__name__, e); q = None
show("nested positional2:", lambda: list(q.evaluate()))
try:
    with symbolic_mode(): q = an(entity(P(From(mixed), b=0)))
except Exception as e:
    print("BUILD EXC", type(e).__name__, e); q = None
show("P kw b=0:", lambda: list(q.evaluate()))
# registry
try:
    with symbolic_mode(): q = an(entity(let(P)))
except Exception as e:
    print("BUILD EXC", type(e).__name__, e); q = None
show("registry P:", lambda: list(q.evaluate()))
try:
    with symbolic_mode(): q = an(entity(let(R)))
except Exception as e:
    print("BUILD EXC", type(e).__name__, e); q = None
show("registry R:", lambda: list(q.evaluate()))
try:
    with symbolic_mode(): q = an(entity(P()))
except Exception as e:
    print("BUILD EXC", type(e).__name__, e); q = None
show("registry P():", lambda: list(q.evaluate()))
# new instance later
p9 = P(9,9)
try:
    with symbolic_mode(): q = an(entity(let(P)))
except Exception as e:
    print("BUILD EXC", type(e).__name__, e); q = None
show("registry P after new:", lambda: list(q.evaluate()))
q9 = Q(10,10)
show("same query re-evaluated after Q(10):", lambda: list(q.evaluate()))
try:
    with symbolic_mode(): q = an(entity(let(P)))
except Exception as e:
    print("BUILD EXC", type(e).__name__, e); q = None
show("new query after Q(10):", lambda: list(q.evaluate()))
