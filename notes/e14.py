import sys, os, traceback
sys.path.insert(0, '/repo/src')
from dataclasses import dataclass
from entity_query_language import *
from entity_query_language.entity import infer
from entity_query_language.symbolic import Variable, Union, ElseIf
@symbol
@dataclass(eq=False)
class P:
    a: int
    def __repr__(self): return f"P({self.a})"
@symbol
@dataclass(eq=False)
class W:
    p: object
    def __repr__(self): return f"W({self.p})"
class Bad(P):
    def __init__(self, a):
        raise ValueError("nope")
ps=[P(1),P(2)]
w0 = W(ps[0])
# infer W from W registry: iterating W's registry while constructing W
with rule_mode():
    w = let(W)
    q = infer(entity(W(p=w), w.p == ps[0]))
try: print("infer W over W registry:", list(q.evaluate()))
except Exception as e: print("EXC", type(e).__name__, e)
with symbolic_mode(): q=an(entity(let(W)))
print("W registry:", list(q.evaluate()))
# failing constructor leaves zombie?
try: Bad(3)
except ValueError: pass
with symbolic_mode(): q=an(entity(let(P)))
r = list(q.evaluate()); print("P registry:", [type(o).__name__ for o in r])
# optimize_or choice
with symbolic_mode():
    x=let(P,ps); y=let(P,ps)
    print(type(or_(x.a==1, y.a==2)).__name__, type(or_(x.a==1, x.a==2)).__name__, type((x.a==1)|(y.a==2)).__name__)
# symbolic construction does not run __init__ / register
class Noisy: pass
@symbol
class N2:
    def __init__(self, v=0): print("  N2.__init__ ran"); self.v=v
with symbolic_mode():
    n = N2()
print("symbolic N2 ->", type(n).__name__)
with symbolic_mode(): q=an(entity(let(N2)))
print("N2 registry:", list(q.evaluate()))
