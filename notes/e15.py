import sys, os, gc, traceback
sys.path.insert(0, os.environ.get('EQL_SRC','/repo/src'))
from dataclasses import dataclass, field
from entity_query_language import *
from entity_query_language.cache_data import disable_caching
if os.environ.get('NOCACHE'): disable_caching()
@symbol
@dataclass(eq=False)
class P:
    a: int
    b: int = 1
    def __repr__(self): return f"P({self.a},{self.b})"
@symbol
@dataclass(eq=False)
class Pair:
    l: P
    r: P
    def __repr__(self): return f"Pair({self.l},{self.r})"
dom = [P(1,1), P(2,1), P(3,2), P(4,2), P(5,3)]
pairs = [Pair(dom[0],dom[1]), Pair(dom[2],dom[3]), Pair(dom[4], dom[0])]
def show(title, f):
    try: print(title, f())
    except Exception as ex:
        traceback.print_exc(limit=-3)
        print(title, "EXC", type(ex).__name__, str(ex)[:200])
with symbolic_mode():
    x = let(P, dom)
    s1 = an(entity(x, x.a >= 2)); s2 = an(entity(x, x.b <= 2))
    q = an(entity(x, s1 & s2))
show("sub & sub (exp 2,3,4):", lambda: list(q.evaluate()))
with symbolic_mode():
    x = let(P, dom)
    s1 = an(entity(x, x.a >= 4)); s2 = an(entity(x, x.b <= 1))
    q = an(entity(x, s1 | s2))
show("sub | sub (exp 1,2,4,5):", lambda: list(q.evaluate()))
with symbolic_mode():
    x = let(P, dom)
    s1 = an(entity(x, x.a >= 4))
    q = an(entity(x, s1 | (x.b <= 1)))
show("sub | cond (exp 1,2,4,5):", lambda: list(q.evaluate()))
with symbolic_mode():
    x = let(P, dom)
    s1 = an(entity(x, x.a >= 4))
    q = an(entity(x, (x.b <= 2) & s1))
show("cond & sub (exp 4):", lambda: list(q.evaluate()))
with symbolic_mode():
    x = let(P, dom); y = let(P, dom)
    s1 = an(set_of([x, y], x.a + 0 == y.a if False else x.b == y.b))
    q = an(set_of([x, y], s1 & (x.a < y.a)))
show("setof sub & cond (exp (1,2),(3,4)):", lambda: [(r[x], r[y]) for r in q.evaluate()])
# comparison operand
with symbolic_mode():
    x = let(P, dom); y = let(P, dom)
    s = an(entity(y, y.a >= 4))
    q = an(entity(x, x.b == s.b))
show("operand an (x.b == s.b) (exp 3,4,5 w/ dups?):", lambda: list(q.evaluate()))
with symbolic_mode():
    x = let(P, dom); y = let(P, dom)
    s = the(entity(y, y.a == 4))
    q = an(entity(x, x.b == s.b))
show("operand the (exp 3,4):", lambda: list(q.evaluate()))
# constructor argument
with symbolic_mode():
    y = let(P, dom)
    s = an(entity(y, y.a >= 3))
    q = an(entity(Pair(From(pairs), l=s)))
show("ctor arg an (exp Pair(3,4), Pair(5,1)):", lambda: list(q.evaluate()))
with symbolic_mode():
    y = let(P, dom)
    s = the(entity(y, y.a == 3))
    q = an(entity(Pair(From(pairs), l=s)))
show("ctor arg the (exp Pair(3,4)):", lambda: list(q.evaluate()))
# not of sub
with symbolic_mode():
    x = let(P, dom)
    s1 = an(entity(x, x.a >= 2)); s2 = an(entity(x, x.b <= 2))
    q = an(entity(x, s1 & (s2 | (x.a == 5))))
show("sub & (sub | cond) (exp 2,3,4,5):", lambda: list(q.evaluate()))
