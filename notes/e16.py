import sys, os, gc, traceback
sys.path.insert(0, os.environ.get('EQL_SRC','/repo/src'))
from dataclasses import dataclass, field
from entity_query_language import *
from entity_query_language.entity import flatten, concatenate
from entity_query_language.cache_data import disable_caching
if os.environ.get('NOCACHE'): disable_caching()

@symbol
@dataclass(eq=False)
class E:
    n: int
    def __repr__(self): return f"E{self.n}"
@symbol
@dataclass(eq=False)
class Par:
    name: str
    items: list
    one: object = None
    def __repr__(self): return self.name
e = [E(i) for i in range(1,7)]
pars = [Par("p1",[e[0],e[1]], e[0]), Par("p2",[], e[1]), Par("p3",[e[1],e[2],e[2]], e[2]), Par("p4",[e[3]], e[3])]
def show(title, f):
    try: print(title, f())
    except Exception as ex:
        traceback.print_exc(limit=-4)
        print(title, "EXC", type(ex).__name__, str(ex)[:200])
with symbolic_mode():
    p = Par(From(pars)); x = flatten(p.items); q = an(entity(x))
show("flatten select elem:", lambda: list(q.evaluate()))
with symbolic_mode():
    p = Par(From(pars)); x = flatten(p.items); q = an(set_of([p, x]))
show("flatten select parent+elem:", lambda: [(r[p], r[x]) for r in q.evaluate()])
with symbolic_mode():
    p = Par(From(pars)); x = flatten(p.items); q = an(set_of([x, p]))
show("flatten select elem+parent:", lambda: [(r[p], r[x]) for r in q.evaluate()])
with symbolic_mode():
    p = Par(From(pars)); x = flatten(p.items); q = an(set_of([p, x], x.n >= 2))
show("flatten parent+elem cond:", lambda: [(r[p], r[x]) for r in q.evaluate()])
with symbolic_mode():
    p = Par(From(pars)); x = flatten(p.items); q = an(entity(x, x.n >= 2))
show("flatten elem cond:", lambda: list(q.evaluate()))
with symbolic_mode():
    p = Par(From(pars)); x = flatten(p.one); q = an(set_of([p, x]))
show("flatten scalar:", lambda: [(r[p], r[x]) for r in q.evaluate()])
with symbolic_mode():
    p = Par(From(pars)); x = flatten(p.items); q = an(entity(p, x.n == 2))
show("flatten select parent cond on elem:", lambda: list(q.evaluate()))
# concatenate
with symbolic_mode():
    p = Par(From(pars)); c = concatenate(p.items); q = an(entity(c))
show("concat:", lambda: list(q.evaluate()))
with symbolic_mode():
    p = Par(From(pars)); c = concatenate(p.one); q = an(entity(c))
show("concat scalars:", lambda: list(q.evaluate()))
with symbolic_mode():
    p = Par(From(pars)); c = concatenate(p.items); y = E(From(e)); q = an(entity(y, in_(y, c)))
show("in concat:", lambda: list(q.evaluate()))
with symbolic_mode():
    p = Par(From(pars)); c = concatenate(p.items); y = E(From(e)); q = an(entity(y, not_(in_(y, c))))
show("not in concat:", lambda: list(q.evaluate()))
with symbolic_mode():
    p = Par(From(pars)); c = concatenate(p.items); y = E(From(e)); q = an(entity(y, contains(c, y)))
show("contains concat:", lambda: list(q.evaluate()))
with symbolic_mode():
    p = Par(From([pars[1]])); c = concatenate(p.items); q = an(entity(c))
show("concat all empty:", lambda: list(q.evaluate()))
with symbolic_mode():
    p = Par(From([])); c = concatenate(p.items); q = an(entity(c))
show("concat no parents:", lambda: list(q.evaluate()))
