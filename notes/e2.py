import sys
sys.path.insert(0,'/repo/src')
from dataclasses import dataclass, field
from typing import List
from entity_query_language import *
from entity_query_language.symbolic import Variable, in_symbolic_mode
import itertools

@symbol
@dataclass(eq=False)
class P:
    a: int
    b: int = 0
    def __repr__(self): return f"P({self.a},{self.b})"

dom = [P(1,1), P(2,1), P(3,2), P(4,2)]
def run(title, mk):
    try:
        with symbolic_mode():
            q = mk()
        r = list(q.evaluate())
        print(title, r)
        r2 = list(q.evaluate())
        if r2 != r: print("   REEVAL differs:", r2)
    except Exception as e:
        import traceback; traceback.print_exc()
        print(title, "EXC", type(e).__name__, e)

def q1():
    x = let(P, dom)
    return an(entity(x, or_(x.a == 1, x.a == 3)))
run("or same var", q1)
def q2():
    x = let(P, dom)
    return an(entity(x, and_(or_(x.a == 1, x.a == 3), or_(x.b == 1, x.b == 2))))
run("and of ors", q2)
def q3():
    x = let(P, dom)
    return an(entity(x, not_(and_(x.a > 1, x.b == 2))))
run("not and", q3)
def q4():
    x = let(P, dom)
    return an(entity(x, not_(or_(x.a > 3, x.b == 1))))
run("not or", q4)
def q5():
    x = let(P, dom); y = let(P, dom)
    return an(set_of([x, y], x.a < y.a, x.b == y.b))
run("join", q5)
def q6():
    x = let(P, dom); y = let(P, dom)
    return an(set_of([x, y], or_(x.a == 1, y.a == 4)))
run("union diff vars", q6)
def q7():
    x = let(P, dom); y = let(P, dom)
    return an(set_of([x, y], x.a == 1))
run("unbound y", q7)
def q8():
    x = let(P, dom); y = let(P, dom)
    return an(set_of([x], x.a < y.a))
run("project x", q8)
def q9():
    x = let(P, dom); y = let(P, dom)
    return an(entity(x, x.a < y.a))
run("entity project x", q9)
