import sys, os
sys.path.insert(0, os.environ.get('EQL_SRC','/repo/src'))
from dataclasses import dataclass, field
from entity_query_language import *
from entity_query_language.symbolic import Variable, in_symbolic_mode

@symbol
@dataclass(eq=False)
class P:
    a: int
    b: int = 1
    def __repr__(self): return f"P({self.a},{self.b})"

dom = [P(1,1), P(2,1), P(3,2), P(4,2)]
# 1. partial evaluation then full
with symbolic_mode():
    x = let(P, dom)
    q = an(entity(x, or_(x.a == 1, x.a >= 3)))
it = q.evaluate(); print("first:", next(it)); it.close()
print("after partial:", list(q.evaluate()))
print("again:", list(q.evaluate()))
# 2. partial with join
with symbolic_mode():
    x = let(P, dom); y = let(P, dom)
    q = an(set_of([x,y], x.b == y.b, x.a < y.a))
it = q.evaluate(); r=next(it); print("first:", r[x], r[y]); it.close()
print("after partial:", [(r[x],r[y]) for r in q.evaluate()])
print("again:", [(r[x],r[y]) for r in q.evaluate()])
# 3. Duplicates in domain
d = dom[0]
dd = [d, dom[1], d]
with symbolic_mode():
    x = let(P, dd)
    q = an(entity(x, x.a >= 1))
print("dups 1st:", list(q.evaluate()))
print("dups 2nd:", list(q.evaluate()))
# 4. Exception from predicate
calls = [0]
@predicate
def boom(p):
    calls[0]+=1
    if calls[0]==2: raise RuntimeError("boom")
    return p.a >= 2
with symbolic_mode():
    x = let(P, dom)
    q = an(entity(x, boom(x)))
try:
    print(list(q.evaluate()))
except RuntimeError as e:
    print("raised", e, "mode:", in_symbolic_mode())
print("after exc:", list(q.evaluate()))
# 5. projection dedup with partial
with symbolic_mode():
    x = let(P, dom); y = let(P, dom)
    q = an(entity(x, x.a < y.a))
it = q.evaluate(); print(next(it), next(it)); it.close()
print("after partial:", list(q.evaluate()))
print("again:", list(q.evaluate()))
