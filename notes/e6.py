import sys, os
sys.path.insert(0, os.environ.get('EQL_SRC','/repo/src'))
from dataclasses import dataclass, field
from entity_query_language import *
from entity_query_language.symbolic import Variable, in_symbolic_mode
from entity_query_language.cache_data import disable_caching
if os.environ.get('NOCACHE'): disable_caching()

@symbol
@dataclass(eq=False)
class P:
    a: int
    b: int = 1
    def __repr__(self): return f"P({self.a},{self.b})"

dom = [P(1,1), P(2,1), P(3,2), P(4,2)]
def tryit(title, mk, n=2):
    with symbolic_mode():
        q = mk()
    for i in range(n):
        try:
            r = q.evaluate()
            print(title, i, "->", r if not hasattr(r,'data') else {k._name_:v for k,v in r.data.items()})
        except Exception as e:
            print(title, i, "EXC", type(e).__name__)
def m(k):
    def f():
        x = let(P, dom)
        return the(entity(x, x.a >= k))
    return f
tryit("one", m(4)); tryit("multi", m(3)); tryit("none", m(5))
def j():
    x = let(P, dom); y = let(P, dom)
    return the(set_of([x,y], x.a == 1, y.a == 4))
tryit("join one", j)
def j2():
    x = let(P, dom); y = let(P, dom)
    return the(set_of([x,y], x.a == 1, y.a >= 3))
tryit("join multi", j2)
def j3():
    x = let(P, dom); y = let(P, dom)
    return the(set_of([x,y], x.a == 1, y.a >= 5))
tryit("join none", j3)
def n1():
    x = let(P, dom)
    return the(entity(x, not_(x.a < 4)))
tryit("not one", n1)
# the inside another query
def inner():
    x = let(P, dom); y = let(P, dom)
    t = the(entity(y, y.a == 2))
    return an(entity(x, x.b == t.b))
with symbolic_mode(): q = inner()
print("the as operand:", list(q.evaluate()), list(q.evaluate()))
def inner0():
    x = let(P, dom); y = let(P, dom)
    t = the(entity(y, y.a == 7))
    return an(entity(x, x.b == t.b))
with symbolic_mode(): q = inner0()
try: print("the(none) as operand:", list(q.evaluate()))
except Exception as e: print("the(none) as operand EXC", type(e).__name__)
