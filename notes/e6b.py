import sys, os, traceback
sys.path.insert(0, os.environ.get('EQL_SRC','/repo/src'))
from dataclasses import dataclass, field
from entity_query_language import *
@symbol
@dataclass(eq=False)
class P:
    a: int
    b: int = 1
dom = [P(1,1), P(2,1), P(3,2), P(4,2)]
with symbolic_mode():
    x = let(P, dom); y = let(P, dom)
    q = the(set_of([x,y], x.a == 1, y.a == 4))
try: q.evaluate()
except Exception: traceback.print_exc()
