import sys, os
sys.path.insert(0, os.environ.get('EQL_SRC','/repo/src'))
from dataclasses import dataclass, field
from entity_query_language import *
from entity_query_language.symbolic import Variable, in_symbolic_mode
from entity_query_language.cache_data import disable_caching
if os.environ.get('NOCACHE'): disable_caching()

@symbol
@dataclass(eq=False)
class P:
    a: int
    b: int = 1
    def __repr__(self): return f"P({self.a},{self.b})"

objs = [P(1,1), P(2,1), P(3,2), P(4,2), P(5,1)]
log=[]
def src():
    for o in objs:
        log.append(o.a); yield o
with symbolic_mode():
    x = let(P, src())
    q = an(entity(x, x.a >= 2))
print("after build log:", log)
it = q.evaluate()
print("after evaluate():", log)
print(next(it), log)
print(next(it), log)
it.close()
print("2nd eval:", list(q.evaluate()), log)
print("3rd eval:", list(q.evaluate()), log)
log.clear()
with symbolic_mode():
    x = P(From(src()))
    q = an(entity(x, x.a >= 2))
print("pred-form after build log:", log)
it = q.evaluate(); print(next(it), log); 
print("rest", list(it), log)
print("again", list(q.evaluate()), log)
# and/or forms
log.clear()
with symbolic_mode():
    x = let(P, src())
    q = an(entity(x, or_(x.a == 2, x.a == 4), x.b >= 1))
it = q.evaluate(); print(next(it), log); print(next(it), log)
