import sys, os, gc
sys.path.insert(0, os.environ.get('EQL_SRC','/repo/src'))
from dataclasses import dataclass, field
from entity_query_language import *
from entity_query_language.symbolic import Variable, in_symbolic_mode, _symbolic_mode, SymbolicExpression
from entity_query_language.enums import EQLMode

@symbol
@dataclass(eq=False)
class P:
    a: int
    b: int = 1
    def __repr__(self): return f"P({self.a},{self.b})"
dom = [P(1,1), P(2,1), P(3,2)]
def mode(): return _symbolic_mode.get()
with symbolic_mode():
    x = let(P, dom)
    q = an(entity(x, x.a >= 2))
print("outside:", mode())
# 1. create + advance iterator inside a block
with symbolic_mode():
    it = q.evaluate()
    print("inside after evaluate():", mode())
    next(it)
    print("inside after next:", mode(), type(P(7)))
print("after block:", mode())
it.close()
print("after close:", mode())
# 2. advance outside, then enter block, then close inside
it = q.evaluate(); next(it)
print("outside after next:", mode())
with symbolic_mode():
    print("inside:", mode())
    it.close()
    print("inside after close:", mode())
print("after block:", mode())
# 3. partial iterator created outside, finalised inside rule_mode
it = q.evaluate(); next(it)
with rule_mode():
    print("rule inside:", mode())
    del it; gc.collect()
    print("rule inside after del:", mode())
print("after:", mode())
# 4. exception inside block
try:
    with symbolic_mode():
        raise KeyError
except KeyError: pass
print("after exc:", mode())
# nesting
with symbolic_mode():
    with rule_mode():
        print("nested:", mode())
    print("back:", mode())
print("end:", mode(), SymbolicExpression._symbolic_expression_stack_)
# `with query:` blocks
with symbolic_mode():
    with q as qq:
        print("stack:", SymbolicExpression._symbolic_expression_stack_)
print("stack after:", SymbolicExpression._symbolic_expression_stack_)
try:
    with rule_mode(q):
        print("stack in rule_mode(q):", SymbolicExpression._symbolic_expression_stack_)
        raise KeyError
except KeyError: pass
print("stack after:", SymbolicExpression._symbolic_expression_stack_, mode())
# operator outside
try:
    x.a
    print("x.a outside allowed")
except AttributeError as e: print("x.a outside rejected")
try:
    x == 1
    print("x == 1 outside allowed", type(x==1))
except AttributeError as e: print("x==1 outside rejected")
