import sys, os, gc, traceback
sys.path.insert(0, os.environ.get('EQL_SRC','/repo/src'))
from dataclasses import dataclass, field
from entity_query_language import *
from entity_query_language.entity import infer
from entity_query_language.symbolic import Variable, in_symbolic_mode, _symbolic_mode, SymbolicExpression

@symbol
@dataclass(eq=False)
class P:
    a: int
    b: int = 1
    def __repr__(self): return f"P({self.a},{self.b})"
@symbol
@dataclass(eq=False)
class Pair:
    l: P
    r: P
    def __repr__(self): return f"Pair({self.l},{self.r})"
@dataclass(eq=False)
class IsBig(Predicate):
    p: P
    def __call__(self): return self.p.a >= 2
@predicate
def is_big(p): return p.a >= 2

dom = [P(1,1), P(2,1), P(3,2)]
def show(title, f):
    try: print(title, f())
    except Exception as e: print(title, "EXC", type(e).__name__, str(e)[:100])

def mk_an_cls():
    x = let(P, dom); return an(entity(x, IsBig(p=x)))
def mk_an_fn():
    x = let(P, dom); return an(entity(x, is_big(x)))
def mk_the_cls():
    x = let(P, dom); return the(entity(x, IsBig(p=x), x.a < 3))
def mk_the_fn():
    x = let(P, dom); return the(entity(x, is_big(x), x.a < 3))
for name, mk in [("an cls", mk_an_cls), ("an fn", mk_an_fn), ("the cls", mk_the_cls), ("the fn", mk_the_fn)]:
    for amb in ["none", "query", "rule"]:
        with symbolic_mode(): q = mk()
        def ev():
            r = q.evaluate()
            return list(r) if name.startswith("an") else r
        if amb == "none": show(f"{name} [{amb}]", ev)
        elif amb == "query":
            with symbolic_mode(): show(f"{name} [{amb}]", ev)
        else:
            with rule_mode(): show(f"{name} [{amb}]", ev)
# infer
def mk_inf(quant):
    x = let(P, dom); y = let(P, dom)
    return quant(entity(Pair(l=x, r=y), x.a == 1, y.a == 3))
for amb in ["none", "query", "rule"]:
    for qn, quant in [("infer", infer), ("the", the)]:
        with rule_mode(): q = mk_inf(quant)
        def ev():
            r = q.evaluate()
            return list(r) if qn=="infer" else r
        if amb == "none": show(f"{qn} Pair [{amb}]", ev)
        elif amb == "query":
            with symbolic_mode(): show(f"{qn} Pair [{amb}]", ev)
        else:
            with rule_mode(): show(f"{qn} Pair [{amb}]", ev)
