import sys, os, random, itertools
from fz import *
# for_all(u, c): u var index nvars-1 is universal; free vars others
def run(seed, nfree, depth, cache, uni_kind):
    rng = random.Random(seed)
    nvars = nfree+1
    doms = [gen_data(rng, rng.randint(1,3), 1) for _ in range(nvars)]
    c = gen_cond(rng, nvars, depth, 1, True)
    used = vars_of(c)
    u = nvars-1
    with symbolic_mode():
        vs = [let(P, d) for d in doms]
        e = build(c, vs)
        if e is None: return None
        fa = for_all(vs[u], e)
        free = vs[:nfree]
        q = an(entity(free[0], fa)) if nfree==1 else an(set_of(free, fa))
    exp = [env for env in itertools.product(*doms[:nfree]) if all(oracle(c, env+(uv,)) for uv in doms[u])]
    try:
        res = list(q.evaluate())
    except Exception as ex:
        return ('exc', c, repr(ex)[:200])
    got = [(r,) for r in res] if nfree==1 else [tuple(r[v] for v in free) for r in res]
    ids = lambda rows: sorted(set(tuple(id(o) for o in row) for row in rows))
    if ids(got) != ids(exp): return ('diff', c, used, [len(d) for d in doms], len(got), len(exp))
    return 'ok'
nfree=int(sys.argv[1]); depth=int(sys.argv[2]); N=int(sys.argv[3]); cache=sys.argv[4]=='1'
(enable_caching if cache else disable_caching)()
st={'ok':0,'skip':0,'diff':0,'exc':0}; shown=0
for s in range(N):
    r=run(s,nfree,depth,cache,0)
    if r is None: st['skip']+=1
    elif r=='ok': st['ok']+=1
    else:
        st[r[0]]+=1
        if shown<8: shown+=1; print(s, r)
print(st)
