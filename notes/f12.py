import sys, os, random, itertools, traceback
sys.path.insert(0, os.environ.get('EQL_SRC','/repo/src'))
from dataclasses import dataclass
from entity_query_language import *
from entity_query_language.rule import refinement, alternative
from entity_query_language.cache_data import enable_caching, disable_caching

@symbol
@dataclass(eq=False)
class P:
    a: int
    b: int
    def __repr__(self): return f"P({self.a},{self.b})"
@symbol
@dataclass(eq=False)
class V:
    p: P
    tag: int
    def __repr__(self): return f"V({self.p.a},{self.tag})"

# rule-tree program: node = (cond, tag, refinements:[node], alternatives:[node])   (RDR)
# semantic: fire(node, x): if cond(x): result = tag; for refinement chain: first refinement... 
# Here: node has at most one refinement child `ref` and one alternative sibling `alt` (classic binary RDR):
#   eval(node, x, default) = if cond: (eval(ref, x, tag) if ref else tag) else (eval(alt, x, default) if alt else default)
def gen_leaf_cond(rng):
    f = rng.choice('ab'); k = rng.randint(1,4); op = rng.choice(['<','>','==','>=','<='])
    return (f, op, k)
import operator
OPS={'<':operator.lt,'>':operator.gt,'==':operator.eq,'>=':operator.ge,'<=':operator.le}
def cval(c, x): return OPS[c[1]](getattr(x,c[0]), c[2])
cnt=[0]
def gen_node(rng, depth):
    cnt[0]+=1
    node = {'cond': gen_leaf_cond(rng), 'tag': cnt[0], 'ref': None, 'alt': None}
    if depth>0 and rng.random()<0.55: node['ref']=gen_node(rng, depth-1)
    if depth>0 and rng.random()<0.45: node['alt']=gen_node(rng, depth-1)
    return node
def rdr(node, x, default):
    if node is None: return default
    if cval(node['cond'], x):
        return rdr(node['ref'], x, node['tag'])
    return rdr(node['alt'], x, default)
def build(node, x, v, order):
    # called inside the block that stands for `node` (its condition holds)
    Add(v, V(p=x, tag=node['tag']))
    def do_ref():
        if node['ref']:
            c = node['ref']['cond']
            with refinement(OPS[c[1]](getattr(x, c[0]), c[2])):
                build(node['ref'], x, v, order)
    def do_alt():
        if node['alt']:
            c = node['alt']['cond']
            with alternative(OPS[c[1]](getattr(x, c[0]), c[2])):
                build(node['alt'], x, v, order)
    if order: do_ref(); do_alt()
    else: do_alt(); do_ref()

def run(seed, depth, cache):
    rng = random.Random(seed); cnt[0]=0
    dom = [P(rng.randint(1,4), rng.randint(1,4)) for _ in range(rng.randint(2,6))]
    root = gen_node(rng, depth)
    with symbolic_mode():
        x = let(P, dom)
        c = root['cond']
        q = an(entity(v := let(V), OPS[c[1]](getattr(x, c[0]), c[2])))
    try:
        with rule_mode(q):
            build(root, x, v, ORDER)
        res = list(q.evaluate())
    except Exception as ex:
        return ('exc', root, repr(ex)[:150])
    got = sorted((dom.index(r.p), r.tag) for r in res)
    exp = sorted((i, t) for i,o in enumerate(dom) for t in [rdr(root, o, None)] if t is not None)
    if got != exp: return ('diff', root, [(o.a,o.b) for o in dom], got, exp)
    return 'ok'
ORDER = (sys.argv[4]=='1') if len(sys.argv)>4 else True
depth=int(sys.argv[1]); N=int(sys.argv[2]); cache=sys.argv[3]=='1'
(enable_caching if cache else disable_caching)()
st={'ok':0,'diff':0,'exc':0}; shown=0
for s in range(N):
    r=run(s,depth,cache)
    if r=='ok': st['ok']+=1
    else:
        st[r[0]]+=1
        if shown<4: shown+=1; print(s, str(r)[:700])
print(st)
