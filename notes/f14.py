import sys, os, random, gc
sys.path.insert(0, os.environ.get('EQL_SRC','/repo/src'))
from dataclasses import dataclass
from entity_query_language import *
from entity_query_language.entity import infer
from entity_query_language.symbolic import Variable, SymbolicExpression
def clear():
    for c in Variable._cache_.values(): c.clear()
    Variable._cache_.clear()
def run(seed):
    rng=random.Random(seed)
    clear()
    # hierarchy: A (symbol, dataclass) ; B(A) symbol ; C(A) undecorated ; D(C) undecorated hand-written init; Z unrelated symbol
    @symbol
    @dataclass(eq=False)
    class A:
        v: int = 0
    @symbol
    @dataclass(eq=False)
    class B(A):
        w: int = 1
    @dataclass(eq=False)
    class C(A):
        pass
    class D(C):
        def __init__(self, v=5, extra=None):
            self.v = v; self.extra = extra
    @symbol
    class Z:
        def __init__(self, a=None): self.a = a
    classes={'A':A,'B':B,'C':C,'D':D,'Z':Z}
    log=[]   # (clsname, obj)
    def expected(T): return [o for n,o in log if isinstance(o, classes[T])]
    for step in range(rng.randint(1,14)):
        op=rng.choice(['new','new','new_kw','sym','query','infer','clear'] )
        T=rng.choice(list(classes))
        if op=='new':
            o = classes[T](rng.randint(0,3)) if T!='Z' else Z(rng.randint(0,3)); log.append((T,o))
        elif op=='new_kw':
            o = classes[T]() ; log.append((T,o))
        elif op=='sym':
            with symbolic_mode():
                s = classes[T]()
            if not isinstance(s, SymbolicExpression): return ('diff','sym-not-symbolic',T)
        elif op=='clear':
            if rng.random()<0.2: clear(); log.clear()
        elif op=='infer':
            if not expected('A'): continue
            with rule_mode():
                a = let(A)
                q = infer(entity(Z(a=a), a.v >= 2))
            try: res=list(q.evaluate())
            except Exception as ex: return ('exc','infer',repr(ex)[:80])
            for o in res: log.append(('Z',o))
        else:
            with symbolic_mode():
                q = an(entity(let(classes[T])))
            try: res=list(q.evaluate())
            except Exception as ex: return ('exc','query',T,repr(ex)[:80])
            if sorted(map(id,res)) != sorted(map(id,expected(T))): return ('diff','query',T,len(res),len(expected(T)))
    return 'ok'
N=int(sys.argv[1]); st={}; shown=0
for s in range(N):
    r=run(s); key=r if isinstance(r,str) else ':'.join(map(str,r[:3]))
    st[key]=st.get(key,0)+1
    if not isinstance(r,str) and shown<5: shown+=1; print(s, r)
print(st)
