import sys, os, random, itertools
from fz import *
def wrap(c, rng, p):
    k=c[0]
    if k in ('and','or'):
        c = (k, wrap(c[1],rng,p), wrap(c[2],rng,p))
    if k != 'not' and rng.random()<p: return ('sub', c)
    return c
def strip(c):
    if c[0]=='sub': return strip(c[1])
    if c[0] in ('and','or'): return (c[0], strip(c[1]), strip(c[2]))
    if c[0]=='not': return ('not', strip(c[1]))
    return c
def build2(c, vs):
    if c[0]=='sub':
        inner = build2(c[1], vs)
        if inner is None: return None
        return an(entity(vs[0], inner)) if len(vs)==1 else an(set_of(vs, inner))
    if c[0] in ('and','or'):
        l,r = build2(c[1],vs), build2(c[2],vs)
        if l is None or r is None: return None
        return and_(l,r) if c[0]=='and' else or_(l,r)
    if c[0]=='not':
        l=build2(c[1],vs)
        return None if l is None else not_(l)
    return build(c, vs)
def run(seed, nvars, depth, p):
    rng = random.Random(seed)
    doms = [gen_data(rng, rng.randint(1,4), 1) for _ in range(nvars)]
    c0 = gen_cond(rng, nvars, depth, 1, True)
    if vars_of(c0) != set(range(nvars)): return None
    c = wrap(c0, rng, p)
    if c == c0: return None
    with symbolic_mode():
        vs = [let(P, d) for d in doms]
        e = build2(c, vs)
        if e is None: return None
        q = an(entity(vs[0], e)) if nvars==1 else an(set_of(vs, e))
    exp = set(tuple(id(o) for o in env) for env in itertools.product(*doms) if oracle(c0, env))
    try: res = list(q.evaluate())
    except Exception as ex: return ('exc', c, repr(ex)[:150])
    got = set(((id(r),) if nvars==1 else tuple(id(r[v]) for v in vs)) for r in res)
    if got != exp: return ('diff', c, len(got), len(exp))
    return 'ok'
nvars=int(sys.argv[1]); depth=int(sys.argv[2]); N=int(sys.argv[3]); cache=sys.argv[4]=='1'
(enable_caching if cache else disable_caching)()
st={'ok':0,'skip':0,'diff':0,'exc':0}; shown=0
for s in range(N):
    r=run(s,nvars,depth,0.4)
    if r is None: st['skip']+=1
    elif r=='ok': st['ok']+=1
    else:
        st[r[0]]+=1
        if shown<5: shown+=1; print(s, str(r)[:500])
print(st)
