import sys, os, random, itertools
sys.path.insert(0, os.environ.get('EQL_SRC','/repo/src'))
from dataclasses import dataclass, field
from entity_query_language import *
from entity_query_language.entity import flatten, concatenate
from entity_query_language.cache_data import enable_caching, disable_caching
@symbol
@dataclass(eq=False)
class E:
    n: int
    def __repr__(self): return f"E{self.n}"
@symbol
@dataclass(eq=False)
class Par:
    k: int
    items: object
    def __repr__(self): return f"Par{self.k}"
def run(seed, cache):
    rng=random.Random(seed)
    es=[E(rng.randint(0,3)) for _ in range(rng.randint(1,5))]
    scal = rng.random()<0.2
    pars=[Par(rng.randint(0,2), (rng.choice(es) if scal else [rng.choice(es) for _ in range(rng.randint(0,3))])) for _ in range(rng.randint(0,4))]
    kind=rng.choice(['sel_x','sel_px','sel_xp','sel_p','concat','in_concat','notin_concat'])
    condk=rng.choice(['none','x','p','px'])
    thr=rng.randint(0,3)
    def inner(p): return [p.items] if scal else list(p.items)
    def cond_ok(p,x):
        if condk=='none': return True
        if condk=='x': return x.n>=thr
        if condk=='p': return p.k>=1
        return x.n>=thr and p.k==1
    try:
        with symbolic_mode():
            p=Par(From(pars)); 
            if kind in('concat','in_concat','notin_concat'):
                c=concatenate(p.items)
                if kind=='concat':
                    q=an(entity(c)); 
                    res=list(q.evaluate()); got=[[id(o) for o in r] for r in res]
                    exp=[[id(x) for pp in pars for x in inner(pp)]]
                else:
                    y=E(From(es))
                    cc = in_(y,c) if kind=='in_concat' else not_(in_(y,c))
                    q=an(entity(y, cc)); res=list(q.evaluate()); got=[id(o) for o in res]
                    allx=[x for pp in pars for x in inner(pp)]
                    exp=[id(o) for o in es if ((o in allx) == (kind=='in_concat'))]
                    # es may contain same object? no, distinct
            else:
                x=flatten(p.items)
                conds=[]
                if condk in('x','px'): conds.append(x.n>=thr)
                if condk=='p': conds.append(p.k>=1)
                if condk=='px': conds.append(p.k==1)
                sel={'sel_x':[x],'sel_px':[p,x],'sel_xp':[x,p],'sel_p':[p]}[kind]
                q=an(set_of(sel,*conds))
                res=list(q.evaluate())
                got=sorted(tuple(id(r[v]) for v in sel) for r in res)
                rows=[(pp,xx) for pp in pars for xx in inner(pp) if cond_ok(pp,xx)]
                m={'sel_x':lambda pp,xx:(id(xx),),'sel_px':lambda pp,xx:(id(pp),id(xx)),'sel_xp':lambda pp,xx:(id(xx),id(pp)),'sel_p':lambda pp,xx:(id(pp),)}[kind]
                exp=sorted(m(pp,xx) for pp,xx in rows)
                if kind=='sel_p': got=sorted(set(got)); exp=sorted(set(exp))
    except Exception as ex:
        return ('exc', kind, condk, scal, [inner(pp) for pp in pars], repr(ex)[:100])
    if got!=exp: return ('diff', kind, condk, scal, len(got), len(exp), [(pp.k, inner(pp)) for pp in pars])
    return 'ok'
N=int(sys.argv[1]); cache=sys.argv[2]=='1'
(enable_caching if cache else disable_caching)()
st={}; shown=0
for s in range(N):
    r=run(s,cache); key=r if isinstance(r,str) else r[0]+':'+r[1]+':'+r[2]
    st[key]=st.get(key,0)+1
    if not isinstance(r,str) and shown<6: shown+=1; print(s, str(r)[:300])
print(st)
