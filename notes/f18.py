import sys, os, random, itertools
from fz import *
# metamorphic: swap operands of and/or, mirror comparisons
MIRROR = {'==':'==','!=':'!=','<':'>','<=':'>=','>':'<','>=':'<='}
def rewrite(c, rng):
    k=c[0]
    if k=='cmp':
        if rng.random()<0.5: return ('cmp', MIRROR[c[1]], c[3], c[2])
        return c
    if k in('and','or'):
        l,r = rewrite(c[1],rng), rewrite(c[2],rng)
        if rng.random()<0.5: l,r=r,l
        return (k,l,r)
    if k=='not': return ('not', rewrite(c[1],rng))
    return c
def run(seed, nvars, depth, allow_not):
    rng = random.Random(seed)
    doms = [gen_data(rng, rng.randint(1,4), LO) for _ in range(nvars)]
    c = gen_cond(rng, nvars, depth, LO, allow_not)
    if vars_of(c) != set(range(nvars)): return None
    c2 = rewrite(c, rng)
    out=[]
    for cc in (c, c2):
        with symbolic_mode():
            vs = [let(P, d) for d in doms]
            e = build(cc, vs)
            if e is None: return None
            q = an(entity(vs[0], e)) if nvars==1 else an(set_of(vs, e))
        try: res = list(q.evaluate())
        except Exception as ex: return ('exc', cc, repr(ex)[:100])
        got = [(r,) for r in res] if nvars==1 else [tuple(r[v] for v in vs) for r in res]
        out.append(sorted(set(tuple(id(o) for o in row) for row in got)))
    if out[0]!=out[1]: return ('diff', c, c2, len(out[0]), len(out[1]))
    return 'ok'
LO=int(os.environ.get("LO","1"))
nvars=int(sys.argv[1]); depth=int(sys.argv[2]); N=int(sys.argv[3]); cache=sys.argv[4]=='1'; allow_not=sys.argv[5]=='1'
(enable_caching if cache else disable_caching)()
st={'ok':0,'skip':0,'diff':0,'exc':0}; shown=0
for s in range(N):
    r=run(s,nvars,depth,allow_not)
    if r is None: st['skip']+=1
    elif r=='ok': st['ok']+=1
    else:
        st[r[0]]+=1
        if shown<4: shown+=1; print(s, r)
print(st)
