import sys, os, random, itertools
from fz import *
class Boom(Exception): pass
calls=[0]; raise_at=[None]
@predicate
def pr(p):
    calls[0]+=1
    if raise_at[0] is not None and calls[0]==raise_at[0]: raise Boom()
    return p.a >= 2
def run(seed, cache):
    rng=random.Random(seed)
    nvars=2
    doms=[gen_data(rng, rng.randint(2,4), 0) for _ in range(nvars)]
    conds=[gen_cond(rng, nvars, 2, 0, True) for _ in range(3)]
    with symbolic_mode():
        vs=[let(P,d) for d in doms]   # shared variables
        qs=[]
        for c in conds:
            e=build(c,vs)
            if e is None: return None
            if rng.random()<0.5: e = and_(e, pr(vs[rng.randrange(nvars)]))
            else: c=None
            qs.append((an(set_of(vs,e)), e))
    def fresh(i):
        raise_at[0]=None
        return sorted(tuple(id(r[v]) for v in vs) for r in qs[i][0].evaluate())
    # oracle via first full evaluation is not trusted: compare with evaluation after history
    hist=[]
    base=None
    # build history
    for step in range(rng.randint(1,6)):
        i=rng.randrange(3); op=rng.choice(['full','partial','raise'])
        hist.append((op,i))
        raise_at[0]=None; calls[0]=0
        if op=='full':
            list(qs[i][0].evaluate())
        elif op=='partial':
            it=qs[i][0].evaluate()
            for _ in range(rng.randint(1,3)):
                try: next(it)
                except StopIteration: break
            it.close()
        else:
            raise_at[0]=rng.randint(1,4)
            try: list(qs[i][0].evaluate())
            except Boom: pass
    i=rng.randrange(3)
    after=fresh(i)
    # reference: rebuild same query freshly
    with symbolic_mode():
        vs2=[let(P,d) for d in doms]
        rng2=random.Random(seed)
    # simpler reference: brute force with python semantics is hard with pr; instead re-evaluate again twice and compare to a fresh copy built identically
    return ('after', hist, i, after)
# Build reference by constructing the same queries in a fresh process-less way: run twice with and without history
def run_pair(seed, cache):
    a=run_with(seed, cache, True); b=run_with(seed, cache, False)
    if a is None or b is None: return None
    if a!=b: return ('diff', seed, a[0], len(a[1]), len(b[1]))
    return 'ok'
def run_with(seed, cache, do_hist):
    rng=random.Random(seed)
    nvars=2
    doms=[gen_data(rng, rng.randint(2,4), 0) for _ in range(nvars)]
    conds=[gen_cond(rng, nvars, 2, 0, True) for _ in range(3)]
    with symbolic_mode():
        vs=[let(P,d) for d in doms]
        qs=[]
        for c in conds:
            e=build(c,vs)
            if e is None: return None
            if rng.random()<0.5: e = and_(e, pr(vs[rng.randrange(nvars)]))
            qs.append(an(set_of(vs,e)))
    hist=[]
    for step in range(rng.randint(1,6)):
        i=rng.randrange(3); op=rng.choice(['full','partial','raise']); k=rng.randint(1,3); j=rng.randint(1,4)
        hist.append((op,i,k,j))
        if not do_hist: continue
        raise_at[0]=None; calls[0]=0
        if op=='full': list(qs[i].evaluate())
        elif op=='partial':
            it=qs[i].evaluate()
            for _ in range(k):
                try: next(it)
                except StopIteration: break
            it.close()
        else:
            raise_at[0]=j
            try: list(qs[i].evaluate())
            except Boom: pass
    i=rng.randrange(3)
    raise_at[0]=None
    res=sorted(tuple(doms[n].index(r[v]) for n,v in enumerate(vs)) for r in qs[i].evaluate())
    return (hist, res)
N=int(sys.argv[1]); cache=sys.argv[2]=='1'
(enable_caching if cache else disable_caching)()
st={}; shown=0
for s in range(N):
    r=run_pair(s,cache); key='skip' if r is None else (r if isinstance(r,str) else r[0])
    st[key]=st.get(key,0)+1
    if not (r is None or isinstance(r,str)) and shown<5: shown+=1; print(str(r)[:400])
print(st)
