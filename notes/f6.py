import sys, os, random, itertools
from fz import *
from entity_query_language.failures import MultipleSolutionFound, NoSolutionFound
from entity_query_language.entity import infer
@symbol
@dataclass(eq=False)
class Pair:
    l: object
    r: object
    tag: object = None
def run(seed, nvars, depth, which):
    rng = random.Random(seed)
    doms = [gen_data(rng, rng.randint(1,3), 0) for _ in range(nvars)]
    c = gen_cond(rng, nvars, depth, 0, True)
    if vars_of(c) != set(range(nvars)): return None
    sols = [env for env in itertools.product(*doms) if oracle(c, env)]
    if which=='the':
        with symbolic_mode():
            vs = [let(P, d) for d in doms]
            e = build(c, vs)
            if e is None: return None
            q = the(entity(vs[0], e)) if nvars==1 else the(set_of(vs, e))
        outs=[]
        for _ in range(2):
            try:
                r = q.evaluate()
                outs.append(('val', (id(r),) if nvars==1 else tuple(id(r[v]) for v in vs)))
            except MultipleSolutionFound: outs.append(('multi',))
            except NoSolutionFound: outs.append(('none',))
            except Exception as ex: outs.append(('exc', repr(ex)[:80]))
        exp = ('none',) if not sols else (('multi',) if len(sols)>1 else ('val', tuple(id(o) for o in sols[0])))
        if outs[0]!=exp or outs[1]!=exp: return ('diff', c, outs, exp[0], len(sols))
        return 'ok:'+exp[0]
    else:
        tagk = rng.choice(['none','const0','attr'])
        with rule_mode():
            vs = [let(P, d) for d in doms]
            e = build(c, vs)
            if e is None: return None
            kw = dict(l=vs[0], r=vs[-1])
            if tagk=='const0': kw['tag']=0
            if tagk=='attr': kw['tag']=vs[0].b
            q = infer(entity(Pair(**kw), e))
        try: res = list(q.evaluate())
        except Exception as ex: return ('exc', c, repr(ex)[:100])
        got = sorted((id(r.l), id(r.r), repr(r.tag)) for r in res)
        exp = sorted((id(env[0]), id(env[-1]), repr(None if tagk=='none' else (0 if tagk=='const0' else env[0].b))) for env in sols)
        if nvars>2: # middle var not in head: property requires heads mention all vars
            return None
        if got!=exp: return ('diff', c, tagk, len(got), len(exp))
        return 'ok'
which=sys.argv[1]; nvars=int(sys.argv[2]); depth=int(sys.argv[3]); N=int(sys.argv[4]); cache=sys.argv[5]=='1'
(enable_caching if cache else disable_caching)()
st={}; shown=0
for s in range(N):
    r=run(s,nvars,depth,which)
    key = 'skip' if r is None else (r if isinstance(r,str) else r[0])
    st[key]=st.get(key,0)+1
    if not (r is None or isinstance(r,str)) and shown<5: shown+=1; print(s, str(r)[:400])
print(st)
