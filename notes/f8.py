import sys, os, random, gc
sys.path.insert(0, os.environ.get('EQL_SRC','/repo/src'))
from dataclasses import dataclass
from entity_query_language import *
from entity_query_language.symbolic import _symbolic_mode, SymbolicExpression, Variable
from entity_query_language.enums import EQLMode
@symbol
@dataclass(eq=False)
class P:
    a: int
dom=[P(i) for i in range(5)]
with symbolic_mode():
    x = let(P, dom); q = an(entity(x, x.a >= 1))
class Boom(Exception): pass
def run(seed, n):
    rng=random.Random(seed)
    ref=[]  # stack of modes
    cms=[]  # context managers entered
    its={}
    trace=[]
    nid=0
    def expect(): return ref[-1] if ref else None
    for step in range(n):
        ops=['enter_q','enter_r','enter_rq','create']
        if cms: ops += ['exit','exit_exc']
        if its: ops += ['advance','close','drop']
        op=rng.choice(ops)
        if op in('enter_q','enter_r','enter_rq'):
            cm = symbolic_mode() if op=='enter_q' else (rule_mode() if op=='enter_r' else rule_mode(q))
            cm.__enter__(); cms.append(cm); ref.append(EQLMode.Query if op=='enter_q' else EQLMode.Rule)
        elif op=='exit':
            cms.pop().__exit__(None,None,None); ref.pop()
        elif op=='exit_exc':
            cm=cms.pop()
            try: cm.__exit__(Boom, Boom(), None)
            except Boom: pass
            ref.pop()
        elif op=='create':
            its[nid]=q.evaluate(); nid+=1
        elif op=='advance':
            k=rng.choice(list(its))
            try: next(its[k])
            except StopIteration: del its[k]
            except RuntimeError: del its[k]
        elif op=='close':
            k=rng.choice(list(its)); its[k].close(); del its[k]
        elif op=='drop':
            k=rng.choice(list(its)); del its[k]; gc.collect()
        trace.append(op)
        got=_symbolic_mode.get()
        sym = isinstance(P(1), SymbolicExpression) if True else None
        if got != expect() or sym != (expect() is not None):
            # cleanup
            while cms:
                try: cms.pop().__exit__(None,None,None)
                except Exception: pass
            _symbolic_mode.set(None); SymbolicExpression._symbolic_expression_stack_.clear()
            return ('diff', trace, str(got), str(expect()))
    while cms: cms.pop().__exit__(None,None,None)
    its.clear(); gc.collect()
    if _symbolic_mode.get() is not None or SymbolicExpression._symbolic_expression_stack_:
        r=('diff-end', trace, str(_symbolic_mode.get()), len(SymbolicExpression._symbolic_expression_stack_))
        _symbolic_mode.set(None); SymbolicExpression._symbolic_expression_stack_.clear()
        return r
    return 'ok'
N=int(sys.argv[1]); st={'ok':0,'diff':0,'diff-end':0}; shown=0
for s in range(N):
    r=run(s, 12)
    if r=='ok': st['ok']+=1
    else:
        st[r[0]]+=1
        if shown<3: shown+=1; print(s, r)
print(st)
