import sys, random, itertools, operator, traceback
import os; sys.path.insert(0, os.environ.get('EQL_SRC','/repo/src'))
from dataclasses import dataclass, field
from entity_query_language import *
from entity_query_language.entity import for_all, flatten, concatenate
from entity_query_language.cache_data import enable_caching, disable_caching

@symbol
@dataclass(eq=False)
class P:
    a: int
    b: int = 0
    items: tuple = ()
    def big(self): return self.a >= 2
    def __repr__(self): return f"P({self.a},{self.b},{self.items})"

OPS = {'==':operator.eq,'!=':operator.ne,'<':operator.lt,'<=':operator.le,'>':operator.gt,'>=':operator.ge}

def gen_term(rng, nvars, lo):
    k = rng.random()
    v = rng.randrange(nvars)
    if k < 0.45: return ('attr', v, rng.choice('ab'))
    if k < 0.6: return ('lit', rng.randint(lo, 3))
    if k < 0.7: return ('idx', v)  # items[0]
    return ('attr', v, rng.choice('ab'))

def gen_cond(rng, nvars, depth, lo, allow_not=True):
    k = rng.random()
    if depth <= 0 or k < 0.35:
        kk = rng.random()
        if kk < 0.7:
            return ('cmp', rng.choice(list(OPS)), gen_term(rng,nvars,lo), gen_term(rng,nvars,lo))
        if kk < 0.8:
            return ('in', ('attr', rng.randrange(nvars), rng.choice('ab')), rng.randrange(nvars))  # attr in v.items
        if kk < 0.9:
            return ('contains', rng.randrange(nvars), ('attr', rng.randrange(nvars), rng.choice('ab')))
        return ('call', rng.randrange(nvars))
    if k < 0.6: return ('and', gen_cond(rng,nvars,depth-1,lo,allow_not), gen_cond(rng,nvars,depth-1,lo,allow_not))
    if k < 0.85: return ('or', gen_cond(rng,nvars,depth-1,lo,allow_not), gen_cond(rng,nvars,depth-1,lo,allow_not))
    if allow_not: return ('not', gen_cond(rng,nvars,depth-1,lo,allow_not))
    return ('and', gen_cond(rng,nvars,depth-1,lo,allow_not), gen_cond(rng,nvars,depth-1,lo,allow_not))

def tval(t, env):
    if t[0]=='attr': return getattr(env[t[1]], t[2])
    if t[0]=='lit': return t[1]
    if t[0]=='idx': return env[t[1]].items[0]
def oracle(c, env):
    k=c[0]
    if k=='cmp': return OPS[c[1]](tval(c[2],env), tval(c[3],env))
    if k=='in': return tval(c[1],env) in env[c[2]].items
    if k=='contains': return tval(c[2],env) in env[c[1]].items
    if k=='call': return env[c[1]].big()
    if k=='and': return oracle(c[1],env) and oracle(c[2],env)
    if k=='or': return oracle(c[1],env) or oracle(c[2],env)
    if k=='not': return not oracle(c[1],env)

def tbuild(t, vs):
    if t[0]=='attr': return getattr(vs[t[1]], t[2])
    if t[0]=='lit': return t[1]
    if t[0]=='idx': return vs[t[1]].items[0]
def build(c, vs):
    k=c[0]
    if k=='cmp':
        l, r = tbuild(c[2],vs), tbuild(c[3],vs)
        if c[2][0]=='lit' and c[3][0]=='lit':
            return None
        return OPS[c[1]](l, r)
    if k=='in': return in_(tbuild(c[1],vs), vs[c[2]].items)
    if k=='contains': return contains(vs[c[1]].items, tbuild(c[2],vs))
    if k=='call': return vs[c[1]].big()
    if k=='and':
        l,r=build(c[1],vs),build(c[2],vs)
        if l is None or r is None: return None
        return and_(l,r)
    if k=='or':
        l,r=build(c[1],vs),build(c[2],vs)
        if l is None or r is None: return None
        return or_(l,r)
    if k=='not':
        l=build(c[1],vs)
        if l is None: return None
        return not_(l)

def vars_of(c, acc=None):
    acc = set() if acc is None else acc
    def t(x):
        if x[0] in ('attr','idx'): acc.add(x[1])
    k=c[0]
    if k=='cmp': t(c[2]); t(c[3])
    elif k=='in': t(c[1]); acc.add(c[2])
    elif k=='contains': acc.add(c[1]); t(c[2])
    elif k=='call': acc.add(c[1])
    elif k in('and','or'): vars_of(c[1],acc); vars_of(c[2],acc)
    elif k=='not': vars_of(c[1],acc)
    return acc

def gen_data(rng, n, lo):
    return [P(rng.randint(lo,3), rng.randint(lo,3), tuple(rng.randint(lo,3) for _ in range(rng.randint(1,3)))) for _ in range(n)]

def run_case(seed, nvars, depth, lo, allow_not=True, reeval=False):
    rng = random.Random(seed)
    doms = [gen_data(rng, rng.randint(1,4), lo) for _ in range(nvars)]
    c = gen_cond(rng, nvars, depth, lo, allow_not)
    used = vars_of(c)
    if used != set(range(nvars)): return None
    with symbolic_mode():
        vs = [let(P, d) for d in doms]
        e = build(c, vs)
        if e is None: return None
        if nvars == 1:
            q = an(entity(vs[0], e))
        else:
            q = an(set_of(vs, e))
    exp = [env for env in itertools.product(*doms) if oracle(c, env)]
    try:
        res = list(q.evaluate())
        if reeval:
            res = list(q.evaluate())
    except Exception as ex:
        return ('exc', c, doms, repr(ex))
    if nvars == 1:
        got = [(r,) for r in res]
    else:
        got = [tuple(r[v] for v in vs) for r in res]
    ids = lambda rows: sorted(tuple(id(o) for o in row) for row in rows)
    if nvars==1:
        if [tuple(id(o) for o in row) for row in got] != [tuple(id(o) for o in row) for row in exp]:
            return ('diff', c, doms, got, exp)
    elif ids(got) != ids(exp):
        return ('diff', c, doms, got, exp)
    return 'ok'

if __name__ == '__main__':
    nvars = int(sys.argv[1]); depth=int(sys.argv[2]); lo=int(sys.argv[3]); N=int(sys.argv[4])
    allow_not = (sys.argv[5]=='1') if len(sys.argv)>5 else True
    cache = (sys.argv[6]=='1') if len(sys.argv)>6 else True
    reeval = (sys.argv[7]=='1') if len(sys.argv)>7 else False
    (enable_caching if cache else disable_caching)()
    stats = {'ok':0,'skip':0,'diff':0,'exc':0}
    shown=0
    for s in range(N):
        r = run_case(s, nvars, depth, lo, allow_not, reeval)
        if r is None: stats['skip']+=1
        elif r=='ok': stats['ok']+=1
        else:
            stats[r[0]]+=1
            if shown<6:
                shown+=1
                print(s, r)
    print(stats)
