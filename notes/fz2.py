import sys, os, random, itertools
from fz import *
def run(seed, nvars, depth, cache):
    rng = random.Random(seed)
    doms = [gen_data(rng, rng.randint(1,4), 1) for _ in range(nvars)]
    c = gen_cond(rng, nvars, depth, 1, True)
    used = vars_of(c)
    if not used: return None
    sel = [i for i in range(nvars) if rng.random()<0.6] or [0]
    rng.shuffle(sel)
    with symbolic_mode():
        vs = [let(P, d) for d in doms]
        e = build(c, vs)
        if e is None: return None
        q = an(set_of([vs[i] for i in sel], e))
    exp = set(tuple(id(env[i]) for i in sel) for env in itertools.product(*doms) if oracle(c, env))
    try: res = list(q.evaluate())
    except Exception as ex: return ('exc', c, sel, repr(ex)[:100])
    got = set(tuple(id(r[vs[i]]) for i in sel) for r in res)
    if got != exp: return ('diff', c, sel, sorted(used), len(got), len(exp))
    return 'ok'
nvars=int(sys.argv[1]); depth=int(sys.argv[2]); N=int(sys.argv[3]); cache=sys.argv[4]=='1'
(enable_caching if cache else disable_caching)()
st={'ok':0,'skip':0,'diff':0,'exc':0}; shown=0
for s in range(N):
    r=run(s,nvars,depth,cache)
    if r is None: st['skip']+=1
    elif r=='ok': st['ok']+=1
    else:
        st[r[0]]+=1
        if shown<5: shown+=1; print(s, str(r)[:400])
print(st)
