import sys, os, random, itertools
from fz import *
def run_hist(seed, nvars, depth, cache):
    rng = random.Random(seed)
    doms = [gen_data(rng, rng.randint(1,4), 1) for _ in range(nvars)]
    c = gen_cond(rng, nvars, depth, 1, True)
    if vars_of(c) != set(range(nvars)): return None
    with symbolic_mode():
        vs = [let(P, d) for d in doms]
        e = build(c, vs)
        if e is None: return None
        q = an(entity(vs[0], e)) if nvars==1 else an(set_of(vs, e))
    exp = [env for env in itertools.product(*doms) if oracle(c, env)]
    if len(exp) < 2: return None
    k = rng.randint(1, len(exp)-1)
    it = q.evaluate()
    for _ in range(k): next(it)
    it.close()
    res = list(q.evaluate())
    got = [(r,) for r in res] if nvars==1 else [tuple(r[v] for v in vs) for r in res]
    ids = lambda rows: sorted(tuple(id(o) for o in row) for row in rows)
    if ids(got) != ids(exp): return ('diff', c, k, len(got), len(exp))
    return 'ok'
nvars=int(sys.argv[1]); depth=int(sys.argv[2]); N=int(sys.argv[3]); cache=sys.argv[4]=='1'
(enable_caching if cache else disable_caching)()
st={'ok':0,'skip':0,'diff':0}; shown=0
for s in range(N):
    r=run_hist(s,nvars,depth,cache)
    if r is None: st['skip']+=1
    elif r=='ok': st['ok']+=1
    else:
        st['diff']+=1
        if shown<5: shown+=1; print(s, r)
print(st)
