import sys, os
sys.path.insert(0, os.environ.get('EQL_SRC','/repo/src'))
from dataclasses import dataclass
from entity_query_language import *
from entity_query_language.rule import refinement, alternative
from entity_query_language.symbolic import SymbolicExpression, BinaryOperator, Entity, An, Comparator
from entity_query_language.conclusion import Conclusion
@symbol
@dataclass(eq=False)
class P:
    a: int
@symbol
@dataclass(eq=False)
class V:
    p: P
    tag: int
dom=[P(i) for i in range(1,9)]
names={}
def nm(n):
    if n is None: return '-'
    if id(n) not in names:
        if isinstance(n, Comparator): names[id(n)] = f"cmp[{n.right._domain_source_.domain[0] if hasattr(n.right,'_domain_source_') and n.right._domain_source_ else '?'}]"
        else: names[id(n)] = f"{type(n).__name__}#{n._id_}"
    return names[id(n)]
def shape(n):
    """tree the evaluator will traverse: _child_ for unary/descriptor nodes, left/right for binary"""
    if n is None: return '-'
    if isinstance(n, BinaryOperator) and not isinstance(n, Comparator):
        concl = sorted(c.value._kwargs_['tag'] if isinstance(c.value._kwargs_.get('tag'), int) else '?' for c in n._conclusion_)
        return f"{type(n).__name__}({shape(n.left)}, {shape(n.right)}){concl if concl else ''}"
    if isinstance(n, Comparator):
        concl = sorted(c.value._kwargs_['tag'] for c in n._conclusion_)
        return nm(n)+ (str(concl) if concl else '')
    if isinstance(n, (An, Entity)): return f"{type(n).__name__}({shape(n._child_)})"
    return nm(n)
def dump(title, q):
    print(f"{title:28s} eval-tree: {shape(q)}")
    print(f"{'':28s} stack: {[nm(s) for s in SymbolicExpression._symbolic_expression_stack_]}")
with symbolic_mode():
    x = let(P, dom)
    q = an(entity(v := let(V), x.a >= 1))
with rule_mode(q):
    dump("enter rule_mode(q)", q)
    Add(v, V(p=x, tag=1)); dump("Add tag1", q)
    with refinement(x.a > 2):
        dump("enter refinement(a>2)", q)
        Add(v, V(p=x, tag=2)); dump("Add tag2", q)
        with refinement(x.a > 5):
            dump("enter refinement(a>5)", q)
            Add(v, V(p=x, tag=3)); dump("Add tag3", q)
        with alternative(x.a < 2):
            dump("enter alternative(a<2)", q)
            Add(v, V(p=x, tag=4)); dump("Add tag4", q)
    with alternative(x.a > 100):
        dump("enter alternative(a>100)", q)
        Add(v, V(p=x, tag=5))
dump("final", q)
print(sorted((r.p.a, r.tag) for r in q.evaluate()))
