import sys, os, random, itertools
from fz import *
def evalq(c, doms, cache):
    (enable_caching if cache else disable_caching)()
    nvars=len(doms)
    with symbolic_mode():
        vs = [let(P, d) for d in doms]
        e = build(c, vs)
        if e is None: return None
        q = an(set_of(vs, e))
    res = list(q.evaluate())
    return sorted(tuple(doms[i].index(r[v]) for i,v in enumerate(vs)) for r in res)
def bad(c, doms):
    if vars_of(c) - set(range(len(doms))): return False
    try:
        a = evalq(c, doms, True); b = evalq(c, doms, False)
    except Exception: return False
    return a is not None and a != b
def subtrees(c):
    k=c[0]
    if k in('and','or'):
        yield c[1]; yield c[2]
        for s in subtrees(c[1]): yield (k, s, c[2])
        for s in subtrees(c[2]): yield (k, c[1], s)
    elif k=='not':
        yield c[1]
        for s in subtrees(c[1]): yield ('not', s)
seed=int(sys.argv[1]); nvars=int(sys.argv[2]); depth=int(sys.argv[3])
rng = random.Random(seed)
doms = [gen_data(rng, rng.randint(1,4), 1) for _ in range(nvars)]
c = gen_cond(rng, nvars, depth, 1, True)
assert bad(c, doms)
changed=True
while changed:
    changed=False
    for s in subtrees(c):
        if bad(s, doms): c=s; changed=True; break
    if changed: continue
    for i in range(len(doms)):
        for j in range(len(doms[i])):
            if len(doms[i])>1:
                nd = [d[:] for d in doms]; del nd[i][j]
                if bad(c, nd): doms=nd; changed=True; break
        if changed: break
print(c); print(doms)
print("cache on :", evalq(c, doms, True)); print("cache off:", evalq(c, doms, False))
