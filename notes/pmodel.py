"""Blueprint of the P-model (DESIGN.md 3.4) as plain Python on lists, mirroring the evaluation ALGORITHM of the
pinned commit including its defects (truthiness filter in value position, non-toggling negation), with no mutable
state.  Compared on exact row SEQUENCES with the real evaluator (caching disabled)."""
import sys, os, random, itertools, operator
from fz import *      # generators, data class P, oracle, EQL imports (EQL_SRC)

INV = {'==':'!=','!=':'==','<':'>=','>=':'<','>':'<=','<=':'>'}
# ---------- elaboration: surface tuple tree -> internal tree (what the constructors build) ----------
def elab(c):
    k=c[0]
    if k=='cmp': return ['cmp', c[1], c[2], c[3], False]          # op, left term, right term, inverted?
    if k=='in': return ['cmp','contains', ('items', c[2]), c[1], False]      # Comparator(container, item, contains)
    if k=='contains': return ['cmp','contains', ('items', c[1]), c[2], False]
    if k=='call': return ['truth', ('call', c[1]), False]
    if k=='and': return ['and', elab(c[1]), elab(c[2])]
    if k=='or': return ['elseif', elab(c[1]), elab(c[2])]         # _optimize_or always picks ElseIf
    if k=='not': return neg(elab(c[1]))
def neg(n):
    k=n[0]
    if k=='and': return ['elseif', neg(n[1]), neg(n[2])]
    if k=='elseif': return ['and', neg(n[1]), neg(n[2])]
    if k=='cmp':
        if not n[4]:                                               # setter: only the first inversion has an effect
            n = ['cmp', INV.get(n[1], 'not_contains' if n[1]=='contains' else n[1]), n[2], n[3], True]
        return n
    if k=='truth': return ['truth', n[1], True]                   # _invert_ = True (set, not toggled)
OPF = dict(OPS); OPF['contains']=lambda a,b: b in a; OPF['not_contains']=lambda a,b: b not in a
# ---------- terms ----------
def tvars(t):
    return {t[1]} if t[0] in ('attr','idx','items','call') else set()
def eval_term(t, b, doms):
    """rows (binding, value); bindings are dicts var->object, never mutated"""
    if t[0]=='lit': return [(b, t[1])]
    v=t[1]
    base = [(b, b[v])] if v in b else [({**b, v:o}, o) for o in doms[v]]
    out=[]
    for b1,o in base:
        if t[0]=='attr': vals=[getattr(o,t[2])]
        elif t[0]=='items': vals=[o.items]
        elif t[0]=='idx':
            x=o.items
            if not x: continue                                     # attribute `items` filtered when falsy (defect C19)
            vals=[x[0]]
        elif t[0]=='call': vals=[o.big()]
        for val in vals:
            if not val: continue                                   # truthiness filter in value position (defect C19)
            out.append((b1,val))
    return out
# ---------- nodes ----------
def ev(n, b, ywf, doms):
    k=n[0]
    if k=='cmp':
        _,op,l,r,_inv=n
        swap = bool(b) and any(v in b for v in tvars(r))
        first,second = (r,l) if swap else (l,r)
        out=[]
        for b1,v1 in eval_term(first,b,doms):
            for b2,v2 in eval_term(second,b1,doms):
                lv,rv = (v2,v1) if swap else (v1,v2)
                res = OPF[op](lv,rv)
                if res or ywf: out.append((b2, not res))
        return out
    if k=='truth':
        _,t,inv=n
        v=t[1]
        base = [(b, b[v])] if v in b else [({**b, v:o}, o) for o in doms[v]]
        out=[]
        for b1,o in base:
            val=o.big()
            is_false = bool(val) if inv else not val
            if ywf or not is_false: out.append((b1,is_false))
        return out
    if k=='and':
        out=[]
        for b1,f1 in ev(n[1],b,ywf,doms):
            if ywf and f1: out.append((b1,True)); continue
            for b2,f2 in ev(n[2],b1,ywf,doms): out.append(({**b2, **b1}, f2))
        return out
    if k=='elseif':
        out=[]; ls=ev(n[1],b,True,doms)
        for b1,f1 in ls:
            if f1:
                for b2,f2 in ev(n[2],b1,ywf,doms):
                    if f2 and not ywf: continue
                    out.append(({**b1, **b2}, f2))
            else: out.append((b1,False))
        if not ls:
            for b2,f2 in ev(n[2],b,ywf,doms):
                if f2 and not ywf: continue
                out.append((b2,f2))
        return out
def run_model(c, doms, sel):
    rows=[]
    for b,f in ev(elab(c), {}, False, doms):
        if f: continue
        gens=[[b[v]] if v in b else list(doms[v]) for v in sel]   # Cartesian completion, selection order
        for combo in itertools.product(*gens):
            rows.append(tuple(combo))
    return rows
def run_impl(c, doms, sel):
    with symbolic_mode():
        vs=[let(P,d) for d in doms]
        e=build(c,vs)
        if e is None: return None
        q=an(set_of([vs[i] for i in sel], e))
    return [tuple(r[vs[i]] for i in sel) for r in q.evaluate()]
if __name__=='__main__':
    nvars=int(sys.argv[1]); depth=int(sys.argv[2]); lo=int(sys.argv[3]); N=int(sys.argv[4])
    disable_caching()
    st={'same-seq':0,'same-multiset':0,'diff':0,'skip':0,'exc':0}; shown=0
    for s in range(N):
        rng=random.Random(s)
        doms=[gen_data(rng, rng.randint(1,4), lo) for _ in range(nvars)]
        c=gen_cond(rng,nvars,depth,lo,True)
        if vars_of(c)!=set(range(nvars)): st['skip']+=1; continue
        sel=list(range(nvars)); rng.shuffle(sel)
        try: impl=run_impl(c,doms,sel)
        except Exception as ex: st['exc']+=1; continue
        if impl is None: st['skip']+=1; continue
        mod=run_model(c,doms,sel)
        ids=lambda rows:[tuple(id(o) for o in r) for r in rows]
        if ids(impl)==ids(mod): st['same-seq']+=1
        elif sorted(ids(impl))==sorted(ids(mod)): st['same-multiset']+=1
        else:
            st['diff']+=1
            if shown<4: shown+=1; print(s, c, sel, '\n  impl', impl, '\n  mod ', mod)
    print(st)
