import sys, os, random, itertools
from fz import *
from entity_query_language.entity import for_all, flatten, concatenate
# evaluate each query three times; compare each evaluation with the oracle (sets)
def run(seed, nvars, depth, lo, kind):
    rng=random.Random(seed)
    doms=[gen_data(rng, rng.randint(1,4), lo) for _ in range(nvars)]
    c=gen_cond(rng,nvars,depth,lo,True)
    if vars_of(c)!=set(range(nvars)): return None
    with symbolic_mode():
        vs=[let(P,d) for d in doms]
        e=build(c,vs)
        if e is None: return None
        if kind=='forall':
            if nvars<2: return None
            q=an(set_of(vs[:-1], for_all(vs[-1], e)))
            exp=set(tuple(id(o) for o in env) for env in itertools.product(*doms[:-1]) if all(oracle(c, env+(u,)) for u in doms[-1]))
            sel=vs[:-1]
        elif kind=='flat':
            x=flatten(vs[0].items)
            q=an(set_of([vs[0], x]+vs[1:], e, x >= 2))
            exp=set((id(env[0]), it)+tuple(id(o) for o in env[1:]) for env in itertools.product(*doms) if oracle(c,env) for it in env[0].items if it>=2)
            sel=None
        else:
            q=an(set_of(vs,e)); sel=vs
            exp=set(tuple(id(o) for o in env) for env in itertools.product(*doms) if oracle(c,env))
    outs=[]
    for i in range(3):
        try: res=list(q.evaluate())
        except Exception as ex: return ('exc', kind, i, repr(ex)[:120])
        if kind=='flat': got=set((id(r[vs[0]]), r[x])+tuple(id(r[v]) for v in vs[1:]) for r in res)
        else: got=set(tuple(id(r[v]) for v in sel) for r in res)
        if got!=exp: return ('diff', kind, 'eval#%d'%i, len(got), len(exp), c)
    return 'ok'
kind=sys.argv[1]; nvars=int(sys.argv[2]); N=int(sys.argv[3]); cache=sys.argv[4]=='1'
(enable_caching if cache else disable_caching)()
st={}; shown=0
for s in range(N):
    r=run(s,nvars,2,0,kind); key='skip' if r is None else (r if isinstance(r,str) else r[0]+':'+str(r[2]))
    st[key]=st.get(key,0)+1
    if not (r is None or isinstance(r,str)) and shown<3: shown+=1; print(s,str(r)[:300])
print(kind, 'cache' if cache else 'nocache', st)
