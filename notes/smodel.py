"""Blueprint of the de-duplication part of the S-model (DESIGN.md 3.3/3.4): the P-model of pmodel.py plus the
per-node seen sets of `_is_duplicate_output_` with `required` variables computed from the static tree.
Compared on exact row SEQUENCES with the real evaluator (caching disabled) on PROJECTION queries."""
import sys, os, random, itertools
from pmodel import *

class N:  # internal node with parent pointer
    def __init__(s, kind, *a): s.kind=kind; s.a=list(a); s.parent=None; s.side=None
def build_tree(n):
    if n[0] in ('and','elseif'):
        l,r=build_tree(n[1]),build_tree(n[2]); t=N(n[0],l,r); l.parent=t; l.side='L'; r.parent=t; r.side='R'; return t
    return N('leaf', n)
def nvars_of(t):
    if t.kind=='leaf':
        n=t.a[0]
        return (tvars(n[2])|tvars(n[3])) if n[0]=='cmp' else tvars(n[1])
    return nvars_of(t.a[0])|nvars_of(t.a[1])
def req(node, truth, sel):
    p=node.parent
    if p is None: return set(sel)
    if p.kind=='and':
        r=set(req(p,truth,sel))
        if node.side=='L': r|=nvars_of(p.a[1])
        return r
    if p.kind=='elseif':
        if node.side=='L':
            if truth is True: return req(p,True,sel)
            return nvars_of(p.a[1])|req(p,None,sel)
        return req(p,truth,sel)
class St:
    def __init__(s): s.seen={}
    def dup(s,node,truth,row,sel):
        rq=req(node,truth,sel)
        ro={k:v for k,v in row.items() if k in rq}
        if not rq or not ro: return False
        lst=s.seen.setdefault((id(node),truth),[])
        for c in lst:
            if all(k in ro and ro[k] is v for k,v in c.items()): return True
        lst.append(ro); return False
def evs(t,b,ywf,doms,st,sel):
    if t.kind=='leaf': return ev(t.a[0],b,ywf,doms)
    out=[]
    if t.kind=='and':
        for b1,f1 in evs(t.a[0],b,ywf,doms,st,sel):
            if ywf and f1:
                if st.dup(t,False,b1,sel): continue
                out.append((b1,True)); continue
            for b2,f2 in evs(t.a[1],b1,ywf,doms,st,sel): out.append(({**b2,**b1},f2))
        return out
    ls=evs(t.a[0],b,True,doms,st,sel)
    for b1,f1 in ls:
        if f1:
            for b2,f2 in evs(t.a[1],b1,ywf,doms,st,sel):
                if f2 and not ywf: continue
                o={**b1,**b2}
                if not f2 and st.dup(t,True,o,sel): continue
                out.append((o,f2))
        else: out.append((b1,False))
    if not ls:
        for b2,f2 in evs(t.a[1],b,ywf,doms,st,sel):
            if f2 and not ywf: continue
            out.append((b2,f2))
    return out
def run_smodel(c,doms,sel):
    t=build_tree(elab(c)); st=St(); rows=[]
    for b,f in evs(t,{}, False, doms, st, sel):
        if f: continue
        gens=[[b[v]] if v in b else list(doms[v]) for v in sel]
        for combo in itertools.product(*gens): rows.append(tuple(combo))
    return rows
if __name__=='__main__':
    nvars=int(sys.argv[1]); depth=int(sys.argv[2]); lo=int(sys.argv[3]); Ncases=int(sys.argv[4])
    disable_caching()
    st={'same-seq':0,'same-multiset':0,'same-set':0,'diff':0,'skip':0,'exc':0,'dedup-mattered':0}; shown=0
    for s in range(Ncases):
        rng=random.Random(s)
        doms=[gen_data(rng, rng.randint(1,4), lo) for _ in range(nvars)]
        c=gen_cond(rng,nvars,depth,lo,True)
        if vars_of(c)!=set(range(nvars)): st['skip']+=1; continue
        sel=[i for i in range(nvars) if rng.random()<0.5] or [rng.randrange(nvars)]
        rng.shuffle(sel)
        try: impl=run_impl(c,doms,sel)
        except Exception as ex: st['exc']+=1; continue
        if impl is None: st['skip']+=1; continue
        mod=run_smodel(c,doms,sel); pure=run_model(c,doms,sel)
        ids=lambda rows:[tuple(id(o) for o in r) for r in rows]
        if ids(mod)!=ids(pure): st['dedup-mattered']+=1
        if ids(impl)==ids(mod): st['same-seq']+=1
        elif sorted(ids(impl))==sorted(ids(mod)): st['same-multiset']+=1
        elif set(ids(impl))==set(ids(mod)): 
            st['same-set']+=1
            if shown<3: shown+=1; print(s,c,sel,'\n impl',impl,'\n mod ',mod)
        else:
            st['diff']+=1
            if shown<3: shown+=1; print(s,c,sel,'\n impl',impl,'\n mod ',mod)
    print(st)
