import sys, os, random, itertools
from fz import *
import entity_query_language.symbolic as S
disable_caching()
seed=int(sys.argv[1])
rng = random.Random(seed)
nvars=2
doms = [gen_data(rng, rng.randint(1,3), 1) for _ in range(nvars)]
c = gen_cond(rng, nvars, 2, 1, True)
print(c); print(doms)
with symbolic_mode():
    vs = [let(P, d) for d in doms]
    e = build(c, vs)
    fa = for_all(vs[1], e)
    q = an(entity(vs[0], fa))
orig = S.ForAll._evaluate__
def name(hv):
    for i,d in enumerate(doms):
        if hv.value in d: return f"{'xu'[i]}{d.index(hv.value)}"
    return repr(hv.value)
oc = type(e)._evaluate__
def traced(self, sources=None, yield_when_false=False):
    print("  cond enter", {k:name(v) for k,v in (sources or {}).items()})
    for v in oc(self, sources, yield_when_false):
        print("  cond yields", {k:name(val) for k,val in v.items() if k in (vs[0]._id_, vs[1]._id_)}, "is_false", self._is_false_)
        yield v
type(e)._evaluate__ = traced
print(list(q.evaluate()))
print("expected", [x for x in doms[0] if all(oracle(c,(x,u)) for u in doms[1])])
