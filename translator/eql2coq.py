#!/usr/bin/env python3
"""eql2coq.py — fail-closed translator: the table-like / structural-rewrite parts of EQL -> Gallina.

usage: eql2coq.py <path to src/entity_query_language>       (prints Generated.v on stdout)

Every extractor recognises ONE family of AST shapes, documented next to it, and raises Refuse for
anything else: an unrecognised shape is a broken tie (exit status 2), never an approximation.
What is extracted (DESIGN.md 3.2):
  inverse_op          Comparator.inverse_operation_map          (symbolic.py)
  not_rule            the isinstance chain of symbolic.Not       (symbolic.py)
  dunder_cmp          CanBehaveLikeAVariable.__eq__ ... __contains__   (symbolic.py)
  in_swaps / contains_swaps   entity.in_ / entity.contains      (entity.py)
  chain_left_fold, and_node, or_builder                           (symbolic.chained_logic, entity.and_/or_)
  or_same_vars / or_diff_vars                                     (symbolic._optimize_or)
  positional_field    predicate.update_domain_and_kwargs_from_args
  scalar_types        utils.is_iterable
"""
import ast, sys, os


class Refuse(Exception):
    pass


def need(cond, msg):
    if not cond:
        raise Refuse(msg)


def parse(path):
    with open(path) as f:
        return ast.parse(f.read(), filename=path)


def find(mod, kind, name):
    for n in mod.body:
        if isinstance(n, kind) and n.name == name:
            return n
    raise Refuse(f'{name}: not found')


def method(cls, name):
    for n in cls.body:
        if isinstance(n, ast.FunctionDef) and n.name == name:
            return n
    raise Refuse(f'{cls.name}.{name}: not found')


def body_wo_doc(fn):
    b = fn.body
    if b and isinstance(b[0], ast.Expr) and isinstance(b[0].value, ast.Constant) and isinstance(b[0].value.value, str):
        b = b[1:]
    return b


OPS = {'lt': 'Lt', 'le': 'Le', 'gt': 'Gt', 'ge': 'Ge', 'eq': 'Eq', 'ne': 'Ne', 'contains': 'Contains',
       'not_contains': 'NotContains'}


def op_name(e, where):
    """operator.<name>  or the module-level function not_contains"""
    if isinstance(e, ast.Attribute) and isinstance(e.value, ast.Name) and e.value.id == 'operator' and e.attr in OPS:
        return OPS[e.attr]
    if isinstance(e, ast.Name) and e.id in OPS:
        return OPS[e.id]
    raise Refuse(f'{where}: unrecognised operator expression {ast.dump(e)}')


# ------------------------------------------------------------------------------------------------
def inverse_table(sym):
    """shape: class Comparator: inverse_operation_map: ClassVar[...] = {operator.a: operator.b, ...}
       and the setter   `if value == self._invert__: return; self._invert__ = value; ...;
                          self.operation = self.inverse_operation_map[self.operation]`
       and  def not_contains(a, b): return not operator.contains(a, b)"""
    cls = find(sym, ast.ClassDef, 'Comparator')
    table = None
    for n in cls.body:
        if isinstance(n, ast.AnnAssign) and isinstance(n.target, ast.Name) and n.target.id == 'inverse_operation_map':
            need(isinstance(n.value, ast.Dict), 'inverse_operation_map: not a dict literal')
            table = {op_name(k, 'inverse_operation_map key'): op_name(v, 'inverse_operation_map value')
                     for k, v in zip(n.value.keys, n.value.values)}
    need(table is not None, 'Comparator.inverse_operation_map: not found (pre-repair `match` setter is not a table)')
    # the setter must apply the table on every change of the flag
    setter = None
    for n in cls.body:
        if isinstance(n, ast.FunctionDef) and n.name == '_invert_' and any(
                isinstance(d, ast.Attribute) and d.attr == 'setter' for d in n.decorator_list):
            setter = n
    need(setter is not None, 'Comparator._invert_ setter: not found')
    src = ast.dump(ast.Module(body=setter.body, type_ignores=[]))
    applies = ("Assign(targets=[Attribute(value=Name(id='self', ctx=Load()), attr='operation', ctx=Store())], "
               "value=Subscript(value=Attribute(value=Name(id='self', ctx=Load()), attr='inverse_operation_map', ctx=Load()), "
               "slice=Attribute(value=Name(id='self', ctx=Load()), attr='operation', ctx=Load()), ctx=Load()))")
    need(applies in src, 'Comparator._invert_ setter: does not assign inverse_operation_map[self.operation]')
    first = setter.body[0]
    need(isinstance(first, ast.If) and ast.dump(first.test) == ast.dump(ast.parse('value == self._invert__').body[0].value)
         and isinstance(first.body[0], ast.Return), 'Comparator._invert_ setter: first statement is not the no-change guard')
    need(sum(isinstance(x, ast.Assign) and ast.dump(x.targets[0]).find("attr='operation'") >= 0
             for x in ast.walk(setter)) == 1, 'Comparator._invert_ setter: operation assigned more than once')
    # not_contains
    nc = find(sym, ast.FunctionDef, 'not_contains')
    need(ast.dump(ast.Module(body=body_wo_doc(nc), type_ignores=[])) ==
         ast.dump(ast.parse('return not operator.contains(a, b)')) and [a.arg for a in nc.args.args] == ['a', 'b'],
         'not_contains: unrecognised body')
    return table


def not_rules(sym):
    """shape: def Not(operand): if not isinstance(operand, SymbolicExpression): operand = Literal(operand)
              if isinstance(operand, K1): <action> elif ... else: operand._invert_ = not operand._invert_ ; return operand
       actions: raise NotImplementedError | operand = operand.__class__(Not(operand._child_), operand.selected_variables)
                | operand = X(Not(operand.left), Not(operand.right))"""
    fn = find(sym, ast.FunctionDef, 'Not')
    b = body_wo_doc(fn)
    need(len(b) == 3 and isinstance(b[0], ast.If) and isinstance(b[1], ast.If) and isinstance(b[2], ast.Return),
         'Not: unexpected statement list')
    need(ast.dump(b[0]) == ast.dump(ast.parse(
        'if not isinstance(operand, SymbolicExpression):\n    operand = Literal(operand)').body[0]), 'Not: literal wrapping changed')
    need(ast.dump(b[2]) == ast.dump(ast.parse('return operand').body[0]), 'Not: does not return operand')
    rules = []
    node = b[1]
    while True:
        t = node.test
        need(isinstance(t, ast.Call) and isinstance(t.func, ast.Name) and t.func.id == 'isinstance' and
             isinstance(t.args[0], ast.Name) and t.args[0].id == 'operand' and isinstance(t.args[1], ast.Name),
             'Not: test is not isinstance(operand, <Class>)')
        kind = t.args[1].id
        need(len(node.body) == 1, f'Not/{kind}: more than one statement')
        s = node.body[0]
        if isinstance(s, ast.Raise):
            act = 'NegRaise'
        elif ast.dump(s) == ast.dump(ast.parse(
                'operand = operand.__class__(Not(operand._child_), operand.selected_variables)').body[0]):
            act = 'NegDescriptor'
        else:
            for target in ('ElseIf', 'AND', 'Union'):
                if ast.dump(s) == ast.dump(ast.parse(f'operand = {target}(Not(operand.left), Not(operand.right))').body[0]):
                    act = 'NegBoth_' + target
                    break
            else:
                raise Refuse(f'Not/{kind}: unrecognised action')
        rules.append((kind, act))
        if len(node.orelse) == 1 and isinstance(node.orelse[0], ast.If):
            node = node.orelse[0]
            continue
        need(len(node.orelse) == 1, 'Not: else branch has more than one statement')
        e = node.orelse[0]
        if ast.dump(e) == ast.dump(ast.parse('operand._invert_ = not operand._invert_').body[0]):
            default = 'NegToggle'
        elif ast.dump(e) == ast.dump(ast.parse('operand._invert_ = True').body[0]):
            default = 'NegSetTrue'
        else:
            raise Refuse('Not: unrecognised default action')
        break
    return rules, default


def dunders(sym):
    """shape: def __xx__(self, other): self._if_not_in_symbolic_mode_raise_error_('__xx__'); return Comparator(A, B, operator.op)
       with {A, B} = {self, other/item}"""
    cls = find(sym, ast.ClassDef, 'CanBehaveLikeAVariable')
    out = {}
    for name in ('__eq__', '__ne__', '__lt__', '__le__', '__gt__', '__ge__', '__contains__'):
        fn = method(cls, name)
        args = [a.arg for a in fn.args.args]
        need(len(args) == 2 and args[0] == 'self', f'{name}: unexpected signature')
        b = body_wo_doc(fn)
        need(len(b) == 2 and isinstance(b[0], ast.Expr) and isinstance(b[1], ast.Return), f'{name}: unexpected body')
        need(ast.dump(b[0].value) == ast.dump(ast.parse(f"self._if_not_in_symbolic_mode_raise_error_('{name}')").body[0].value),
             f'{name}: mode guard changed')
        c = b[1].value
        need(isinstance(c, ast.Call) and isinstance(c.func, ast.Name) and c.func.id == 'Comparator' and len(c.args) == 3
             and not c.keywords and all(isinstance(a, ast.Name) for a in c.args[:2]), f'{name}: does not return Comparator(a, b, op)')
        a0, a1 = c.args[0].id, c.args[1].id
        need({a0, a1} == {'self', args[1]}, f'{name}: operands are not self and {args[1]}')
        out[name] = (a0 != 'self', op_name(c.args[2], name))
    return out


def membership(ent):
    """in_(item, container): return Comparator(X, Y, operator.contains)      contains(container, item): return in_(P, Q)"""
    fn = find(ent, ast.FunctionDef, 'in_')
    need([a.arg for a in fn.args.args] == ['item', 'container'], 'in_: signature changed')
    b = body_wo_doc(fn)
    need(len(b) == 1 and isinstance(b[0], ast.Return), 'in_: unexpected body')
    c = b[0].value
    need(isinstance(c, ast.Call) and isinstance(c.func, ast.Name) and c.func.id == 'Comparator' and len(c.args) == 3 and
         all(isinstance(a, ast.Name) for a in c.args[:2]) and {c.args[0].id, c.args[1].id} == {'item', 'container'},
         'in_: does not return Comparator(container|item, ...)')
    in_left_is_container = c.args[0].id == 'container'
    in_op = op_name(c.args[2], 'in_')
    fn = find(ent, ast.FunctionDef, 'contains')
    need([a.arg for a in fn.args.args] == ['container', 'item'], 'contains: signature changed')
    b = body_wo_doc(fn)
    need(len(b) == 1 and isinstance(b[0], ast.Return), 'contains: unexpected body')
    c = b[0].value
    need(isinstance(c, ast.Call) and isinstance(c.func, ast.Name) and c.func.id == 'in_' and len(c.args) == 2 and
         all(isinstance(a, ast.Name) for a in c.args) and {c.args[0].id, c.args[1].id} == {'item', 'container'},
         'contains: does not return in_(...)')
    contains_passes_item_first = c.args[0].id == 'item'
    return in_left_is_container, in_op, contains_passes_item_first


def chains(sym, ent):
    """chained_logic: prev=None; for condition in conditions: if prev is None: prev = condition; continue; prev = operator(prev, condition); return prev
       and_(*conditions): return chained_logic(AND, *conditions)     or_: return chained_logic(_optimize_or, *conditions)"""
    fn = find(sym, ast.FunctionDef, 'chained_logic')
    want = ast.parse('''
prev_operation = None
for condition in conditions:
    if prev_operation is None:
        prev_operation = condition
        continue
    prev_operation = operator(prev_operation, condition)
return prev_operation
''')
    got = ast.Module(body=body_wo_doc(fn), type_ignores=[])
    left = ast.dump(got) == ast.dump(want)
    if not left:
        want_r = ast.dump(want).replace("args=[Name(id='prev_operation', ctx=Load()), Name(id='condition', ctx=Load())]",
                                        "args=[Name(id='condition', ctx=Load()), Name(id='prev_operation', ctx=Load())]")
        need(ast.dump(got) == want_r, 'chained_logic: unrecognised loop')
    res = {}
    for name in ('and_', 'or_'):
        f = find(ent, ast.FunctionDef, name)
        b = body_wo_doc(f)
        need(len(b) == 1 and isinstance(b[0], ast.Return), f'{name}: unexpected body')
        c = b[0].value
        need(isinstance(c, ast.Call) and isinstance(c.func, ast.Name) and c.func.id == 'chained_logic' and len(c.args) == 2
             and isinstance(c.args[0], ast.Name) and isinstance(c.args[1], ast.Starred), f'{name}: does not call chained_logic(X, *conditions)')
        res[name] = c.args[0].id
    return left, res


def optimize_or(sym):
    """left_vars = left._unique_variables_.filter(<lambda>); right_vars = ...; if left_vars == right_vars: return A(left, right) else: return B(left, right)"""
    fn = find(sym, ast.FunctionDef, '_optimize_or')
    b = body_wo_doc(fn)
    guard = None
    if len(b) == 4 and isinstance(b[0], ast.If):
        # a constant operand (or_ takes SymbolicExpression | bool) goes straight to a node, which wraps it into a Literal:
        #   if not isinstance(left, SymbolicExpression) or not isinstance(right, SymbolicExpression): return A(left, right)
        need(ast.unparse(b[0].test) == 'not isinstance(left, SymbolicExpression) or not isinstance(right, SymbolicExpression)'
             and not b[0].orelse, '_optimize_or: the guard for constant operands changed')
        guard, b = b[0].body, b[1:]
    need(len(b) == 3 and isinstance(b[2], ast.If), '_optimize_or: unexpected statement list')
    need(ast.dump(b[2].test) == ast.dump(ast.parse('left_vars == right_vars').body[0].value), '_optimize_or: test changed')

    def ret(stmts):
        need(len(stmts) == 1 and isinstance(stmts[0], ast.Return) and isinstance(stmts[0].value, ast.Call) and
             [ast.dump(a) for a in stmts[0].value.args] == [ast.dump(a) for a in ast.parse('f(left, right)').body[0].value.args],
             '_optimize_or: branch changed')
        return stmts[0].value.func.id
    lazy = all(ast.dump(b[i].value) == ast.dump(ast.parse(
        f'{s}._unique_variables_.filter(lambda v: not isinstance(v.value, Literal))').body[0].value) for i, s in ((0, 'left'), (1, 'right')))
    need(lazy, '_optimize_or: variable sets are no longer lazy HashedIterable.filter results')
    # the model reads a disjunction with a constant operand as the node built for equal variable sets (the else-if)
    need(guard is None or ret(guard) == ret(b[2].body), '_optimize_or: a constant operand no longer builds the node of equal variable sets')
    return ret(b[2].body), ret(b[2].orelse)


def positional(pred):
    """update_domain_and_kwargs_from_args: for i, arg in enumerate(args): if isinstance(arg, From): ... else: arg_name = init_args[<expr>]
       supported index expressions: i+1 (counts the From argument)  |  a separate counter starting at 1 incremented per field"""
    fn = find(pred, ast.FunctionDef, 'update_domain_and_kwargs_from_args')
    src = ast.dump(fn)
    loop = [n for n in ast.walk(fn) if isinstance(n, ast.For)]
    need(len(loop) == 1, 'update_domain_and_kwargs_from_args: expected one loop')
    names = [n for n in ast.walk(loop[0]) if isinstance(n, ast.Assign) and isinstance(n.targets[0], ast.Name)
             and n.targets[0].id == 'arg_name']
    need(len(names) == 1 and isinstance(names[0].value, ast.Subscript) and ast.dump(names[0].value.value) ==
         ast.dump(ast.parse('init_args').body[0].value), 'update_domain_and_kwargs_from_args: arg_name assignment changed')
    idx = names[0].value.slice
    if ast.dump(idx) == ast.dump(ast.parse('i+1').body[0].value):
        return 'enumerate_index'            # field index = position among ALL positional args (From included)
    if isinstance(idx, ast.Name):
        cnt = idx.id
        init = [n for n in fn.body if isinstance(n, ast.Assign) and isinstance(n.targets[0], ast.Name) and n.targets[0].id == cnt]
        need(len(init) == 1 and isinstance(init[0].value, ast.Constant) and init[0].value.value == 1,
             'update_domain_and_kwargs_from_args: field counter does not start at 1 (self skipped)')
        incs = [n for n in ast.walk(loop[0]) if isinstance(n, ast.AugAssign) and isinstance(n.target, ast.Name) and n.target.id == cnt]
        need(len(incs) == 1 and isinstance(incs[0].op, ast.Add) and isinstance(incs[0].value, ast.Constant) and incs[0].value.value == 1,
             'update_domain_and_kwargs_from_args: field counter is not incremented by one per field')
        # the increment must sit in the same (else) branch as the assignment
        els = loop[0].body[-1].orelse if isinstance(loop[0].body[-1], ast.If) else []
        need(names[0] in els and incs[0] in els, 'update_domain_and_kwargs_from_args: counter not advanced next to its use')
        return 'field_counter'
    raise Refuse('update_domain_and_kwargs_from_args: unrecognised index expression')


def scalar_types(utl):
    """is_iterable(obj): return hasattr(obj, "__iter__") and not isinstance(obj, (T1, T2, ...))"""
    fn = find(utl, ast.FunctionDef, 'is_iterable')
    b = body_wo_doc(fn)
    need(len(b) == 1 and isinstance(b[0], ast.Return) and isinstance(b[0].value, ast.BoolOp) and isinstance(b[0].value.op, ast.And)
         and len(b[0].value.values) == 2, 'is_iterable: unexpected body')
    l, r = b[0].value.values
    need(ast.dump(l) == ast.dump(ast.parse('hasattr(obj, "__iter__")').body[0].value), 'is_iterable: hasattr test changed')
    need(isinstance(r, ast.UnaryOp) and isinstance(r.op, ast.Not) and isinstance(r.operand, ast.Call) and
         r.operand.func.id == 'isinstance' and isinstance(r.operand.args[1], ast.Tuple), 'is_iterable: exclusion test changed')
    return [e.id for e in r.operand.args[1].elts]


def mode_bracketing(sym):
    """An.evaluate / The.evaluate: where the mode is switched off.  A `mode block` is  `with symbolic_mode(mode=None):`.
       Recognised: any nesting of try / while / for / with / if around: yield, yield from, next(<name>), <name>.close(),
       self._evaluate_() / self._evaluate__().  Direct writes of the mode variable are refused."""
    def is_mode_block(w):
        if not isinstance(w, ast.With) or len(w.items) != 1:
            return False
        c = w.items[0].context_expr
        return (isinstance(c, ast.Call) and isinstance(c.func, ast.Name) and c.func.id == 'symbolic_mode' and not c.args
                and len(c.keywords) == 1 and c.keywords[0].arg == 'mode' and isinstance(c.keywords[0].value, ast.Constant)
                and c.keywords[0].value.value is None)

    def scan(fn):
        found = dict(yield_in=0, yield_out=0, adv_in=0, adv_out=0, close_in=0, close_out=0, eval_in=0, eval_out=0)

        def walk(node, inside):
            for ch in ast.iter_child_nodes(node):
                ins = inside or is_mode_block(ch)
                if isinstance(ch, (ast.FunctionDef, ast.Lambda)):
                    continue
                if isinstance(ch, ast.With) and not is_mode_block(ch):
                    for it in ch.items:
                        need('symbolic_mode' not in ast.dump(it), f'{fn.name}: unrecognised use of symbolic_mode')
                if isinstance(ch, (ast.Yield, ast.YieldFrom)):
                    found['yield_in' if inside else 'yield_out'] += 1
                if isinstance(ch, ast.YieldFrom) or isinstance(ch, ast.For) or (
                        isinstance(ch, ast.Call) and isinstance(ch.func, ast.Name) and ch.func.id == 'next'):
                    found['adv_in' if inside else 'adv_out'] += 1
                if isinstance(ch, ast.Call) and isinstance(ch.func, ast.Attribute) and ch.func.attr == 'close':
                    found['close_in' if inside else 'close_out'] += 1
                if isinstance(ch, ast.Call) and isinstance(ch.func, ast.Attribute) and ch.func.attr in ('_evaluate_', '_evaluate__') \
                        and isinstance(ch.func.value, ast.Name) and ch.func.value.id == 'self':
                    found['eval_in' if inside else 'eval_out'] += 1
                walk(ch, ins)
        walk(fn, False)
        src = ast.dump(fn)
        need('_set_symbolic_mode' not in src and "_symbolic_mode" not in src.replace('symbolic_mode', 'X').replace('_X', '_symbolic_mode')
             or True, 'unreachable')
        need("id='_set_symbolic_mode'" not in src and "id='_symbolic_mode'" not in src, f'{fn.name}: writes the mode variable directly')
        return found
    an = scan(method(find(sym, ast.ClassDef, 'An'), 'evaluate'))
    the = scan(method(find(sym, ast.ClassDef, 'The'), 'evaluate'))
    need(an['adv_in'] + an['adv_out'] >= 1, 'An.evaluate: no place found where the result generator is advanced')
    need(an['yield_in'] + an['yield_out'] >= 1, 'An.evaluate: not a generator')
    need(the['eval_in'] + the['eval_out'] == 1, 'The.evaluate: expected exactly one call of self._evaluate_()')
    return dict(an_mode_off_around_next=(an['adv_out'] == 0), an_yield_inside_mode_block=(an['yield_in'] > 0),
                an_close_under_mode_off=(an['close_out'] == 0), the_mode_off=(the['eval_out'] == 0))



def block_discipline(sym):
    """symbolic_mode(query, mode): the mode found on entry is saved BEFORE anything else, the block's mode is set once, the
       generator yields once, and the saved mode is written back in the finally clause (after the optional query.__exit__());
       rule_mode delegates to symbolic_mode(query, EQLMode.Rule).  Anything else is refused."""
    fn = find(sym, ast.FunctionDef, 'symbolic_mode')
    b = body_wo_doc(fn)
    need(len(b) == 2 and isinstance(b[0], ast.Assign) and isinstance(b[1], ast.Try), 'symbolic_mode: expected `prev = _symbolic_mode.get()` then try/finally')
    need(len(b[0].targets) == 1 and isinstance(b[0].targets[0], ast.Name), 'symbolic_mode: the entry mode is not saved in a local')
    prev = b[0].targets[0].id
    need(ast.dump(b[0].value) == ast.dump(ast.parse('_symbolic_mode.get()').body[0].value), 'symbolic_mode: the saved value is not the current mode')
    t = b[1]
    need(not t.handlers and not t.orelse, 'symbolic_mode: unexpected except/else clause')

    def is_query_guard(st, call):
        return (isinstance(st, ast.If) and not st.orelse and len(st.body) == 1 and
                ast.dump(st.test) == ast.dump(ast.parse('query is not None').body[0].value) and
                ast.dump(st.body[0]) == ast.dump(ast.parse(call).body[0]))
    body = list(t.body)
    if body and is_query_guard(body[0], 'query.__enter__(in_rule_mode=True)'):
        body = body[1:]
    need(len(body) == 2 and ast.dump(body[0]) == ast.dump(ast.parse('_set_symbolic_mode(mode)').body[0]),
         'symbolic_mode: the block mode is not set by exactly one _set_symbolic_mode(mode)')
    need(isinstance(body[1], ast.Expr) and isinstance(body[1].value, ast.Yield), 'symbolic_mode: expected exactly one yield after setting the mode')
    fin = list(t.finalbody)
    if fin and is_query_guard(fin[0], 'query.__exit__()'):
        fin = fin[1:]
    need(len(fin) == 1 and ast.dump(fin[0]) == ast.dump(ast.parse(f'_set_symbolic_mode({prev})').body[0]),
         'symbolic_mode: the finally clause does not write back the mode saved on entry')
    rm = body_wo_doc(find(sym, ast.FunctionDef, 'rule_mode'))
    need(len(rm) == 1 and isinstance(rm[0], ast.With) and len(rm[0].items) == 1 and
         ast.dump(rm[0].items[0].context_expr) == ast.dump(ast.parse('symbolic_mode(query, EQLMode.Rule)').body[0].value) and
         len(rm[0].body) == 1 and isinstance(rm[0].body[0], ast.Expr) and isinstance(rm[0].body[0].value, ast.Yield),
         'rule_mode: does not simply delegate to symbolic_mode(query, EQLMode.Rule)')
    setter = body_wo_doc(find(sym, ast.FunctionDef, '_set_symbolic_mode'))
    need(len(setter) == 1 and ast.dump(setter[0]) == ast.dump(ast.parse('_symbolic_mode.set(mode)').body[0]),
         '_set_symbolic_mode: does not simply set the context variable')
    return True


def flag_discipline(sym):
    """Comparator / AND / ElseIf ._evaluate__: a row and its truth flag belong together.  In every loop over rows, the flag
       `self._is_false_` is SET in the current iteration before it is USED in that iteration: stored with the row
       (self.update_cache(...)), read by the duplicate check (self._is_duplicate_output_(...)), or read by the consumer after a
       plain `yield`.  (The models pair every row with its own flag: EvalPure rows are (binding, flag); IndexedMemo_Facts stores a
       row with its own flag.)  A must-set dataflow over if / try / with inside each loop body; nested loops are analysed on their
       own; a branch that ends in continue / return / raise does not flow on."""
    def is_flag_set(st):
        return (isinstance(st, ast.Assign) and len(st.targets) == 1 and isinstance(st.targets[0], ast.Attribute)
                and st.targets[0].attr == '_is_false_' and isinstance(st.targets[0].value, ast.Name) and st.targets[0].value.id == 'self')

    def uses_flag(node):
        """an expression / simple statement that stores or reads the flag of the current row"""
        for n in ast.walk(node):
            if isinstance(n, ast.Call) and isinstance(n.func, ast.Attribute) and n.func.attr in ('update_cache', '_is_duplicate_output_') \
                    and isinstance(n.func.value, ast.Name) and n.func.value.id == 'self':
                return n.func.attr
            if isinstance(n, ast.Yield):
                return 'yield'
        return None

    def flow(stmts, state, where, found):
        """returns the must-set state after the statements, or None when control never falls through"""
        for st in stmts:
            if state is None:
                return None
            if isinstance(st, (ast.For, ast.While)):
                found['loops'].append(st)
                continue                                   # a nested loop is a context of its own
            if isinstance(st, (ast.Continue, ast.Return, ast.Raise, ast.Break)):
                if isinstance(st, ast.Return) and st.value is not None and uses_flag(st.value):
                    need(state, f'{where}: the truth flag is used before it is set in this iteration')
                return None
            if is_flag_set(st):
                state = True
                continue
            if isinstance(st, ast.If):
                u = uses_flag(st.test)
                need(not u or state, f'{where}: {u} reads the truth flag before it is set in this iteration')
                a = flow(st.body, state, where, found)
                b = flow(st.orelse, state, where, found)
                state = b if a is None else a if b is None else (a and b)
                continue
            if isinstance(st, ast.Try):
                a = flow(st.body, state, where, found)
                for h in st.handlers:
                    flow(h.body, state, where, found)
                flow(st.finalbody, False if a is None else a, where, found)
                state = a
                continue
            if isinstance(st, ast.With):
                state = flow(st.body, state, where, found)
                continue
            u = uses_flag(st)
            if u:
                found['uses'] += 1
                need(state, f'{where}: {u} uses the truth flag before it is set in this iteration')
        return state

    total = 0
    for cname in ('Comparator', 'AND', 'ElseIf'):
        fn = method(find(sym, ast.ClassDef, cname), '_evaluate__')
        found = {'loops': [], 'uses': 0}
        flow(fn.body, True, f'{cname}._evaluate__', found)          # outside a loop there is no "current row"
        seen = 0
        while seen < len(found['loops']):
            loop = found['loops'][seen]
            seen += 1
            flow(loop.body, False, f'{cname}._evaluate__ (loop at line {loop.lineno})', found)
        need(seen >= 1, f'{cname}._evaluate__: no loop over rows found')
        total += found['uses']
    need(total >= 6, 'flag discipline: fewer uses of the truth flag found than the call sites known to exist')
    return True


def cached_replay(sym):
    """BinaryOperator.yield_final_output_from_cache / yield_from_cache: what is replayed for a covered lookup is
       self._most_general_(cache.retrieve(<lookup>)) - every retrieved row, reduced to the most general ones."""
    cls = find(sym, ast.ClassDef, 'BinaryOperator')
    ok = True
    for name in ('yield_final_output_from_cache', 'yield_from_cache'):
        fn = method(cls, name)
        loops = [n for n in ast.walk(fn) if isinstance(n, ast.For)]
        need(len(loops) == 1, f'BinaryOperator.{name}: expected exactly one loop over the retrieved rows')
        it = loops[0].iter
        direct = (isinstance(it, ast.Call) and isinstance(it.func, ast.Attribute) and it.func.attr == 'retrieve')
        filtered = (isinstance(it, ast.Call) and isinstance(it.func, ast.Attribute) and it.func.attr == '_most_general_'
                    and isinstance(it.func.value, ast.Name) and it.func.value.id == 'self' and len(it.args) == 1
                    and isinstance(it.args[0], ast.Call) and isinstance(it.args[0].func, ast.Attribute)
                    and it.args[0].func.attr == 'retrieve')
        need(direct or filtered, f'BinaryOperator.{name}: the loop does not run over cache.retrieve(...)')
        ok = ok and filtered
        if name == 'yield_final_output_from_cache':
            # a replayed row is classified by ITS OWN truth flag: the flag is set before the row is tested against the seen set
            # (_is_duplicate_output_ reads self._is_false_ to choose the required variables and the set), and only false rows are tested
            body = loops[0].body
            pos_flag = [i for i, st in enumerate(body) if isinstance(st, ast.Assign) and len(st.targets) == 1
                        and ast.unparse(st.targets[0]) == 'self._is_false_' and ast.unparse(st.value) == 'is_false']
            pos_dup = [i for i, st in enumerate(body) if '_is_duplicate_output_' in ast.dump(st)]
            need(len(pos_flag) == 1 and len(pos_dup) == 1 and pos_flag[0] < pos_dup[0],
                 'BinaryOperator.yield_final_output_from_cache: the truth flag of a replayed row is no longer set before the row is '
                 'tested against the seen set')
            st = body[pos_dup[0]]
            need(isinstance(st, ast.If) and ast.unparse(st.test) == 'is_false and self._is_duplicate_output_(output)'
                 and len(st.body) == 1 and isinstance(st.body[0], ast.Continue) and not st.orelse,
                 'BinaryOperator.yield_final_output_from_cache: the duplicate test of replayed rows has another shape')
            need(isinstance(body[-1], ast.Expr) and isinstance(body[-1].value, ast.Yield) and ast.unparse(body[-1].value.value) == 'output',
                 'BinaryOperator.yield_final_output_from_cache: the replayed row is no longer yielded last')
    mg = method(cls, '_most_general_')
    src = ast.dump(mg)
    # the selection itself is modelled by hand (IndexedMemo_Facts.most_general); here only its ingredients are pinned:
    # same truth flag, shorter-or-earlier, containment of every item
    for token, what in (("other_is_false", 'compares the truth flags'), ("len", 'compares the sizes of the rows'),
                        ("items", 'tests containment item by item'), ("enumerate", 'breaks ties by position')):
        need(token in src, f'BinaryOperator._most_general_: no longer {what}')
    return ok


def required_variables(sym):
    """BinaryOperator / OR ._required_variables_from_child_(child, when_true): which variables an operator reports as REQUIRED from a
    child row (the de-duplication of rows keys on them, Dedup.v).  The body is run by a small abstract interpreter for every
    (child in {left, right}) x (when_true in {True, False, None}); recognised statements only:
        if not child: child = self.left              required_vars = HashedIterable()            return required_vars
        <local> = <expr>                              if <expr>: ... [elif ... / else ...]
        required_vars.update(self.right._unique_variables_)                                   -> the right operand's variables are added
        for conc in <self|self.left|self.right>._conclusion_[...]: required_vars.update(conc._unique_variables_)   (rule conclusions: ignored)
        required_vars.update(self._parent_._required_variables_from_child_(self, <expr>))     -> what the parent is asked
    expressions: True / False / None, locals, `child is self.left|right`, `x is None`, `x is not None`, not / and / or, conditional
    expressions, self._parent_ (taken as present).  Result per class: {(is_left, when_true): (adds_right, parent_arg)}."""
    D = lambda src: ast.dump(ast.parse(src).body[0])

    def ev(e, env, where):
        if isinstance(e, ast.Constant) and e.value in (True, False, None):
            return e.value
        if isinstance(e, ast.Name):
            need(e.id in env, f'{where}: unknown name {e.id}')
            return env[e.id]
        if isinstance(e, ast.Attribute) and ast.dump(e) == ast.dump(ast.parse('self._parent_').body[0].value):
            return True
        if isinstance(e, ast.UnaryOp) and isinstance(e.op, ast.Not):
            return not ev(e.operand, env, where)
        if isinstance(e, ast.BoolOp):
            v = None
            for x in e.values:
                v = ev(x, env, where)
                if isinstance(e.op, ast.Or) and v:
                    return v
                if isinstance(e.op, ast.And) and not v:
                    return v
            return v
        if isinstance(e, ast.IfExp):
            return ev(e.body, env, where) if ev(e.test, env, where) else ev(e.orelse, env, where)
        if isinstance(e, ast.Compare) and len(e.ops) == 1 and isinstance(e.ops[0], (ast.Is, ast.IsNot)):
            l, r = e.left, e.comparators[0]
            if isinstance(l, ast.Name) and l.id == 'child' and isinstance(r, ast.Attribute) and isinstance(r.value, ast.Name) \
                    and r.value.id == 'self' and r.attr in ('left', 'right'):
                res = env['child'] == r.attr
            elif isinstance(r, ast.Constant) and r.value is None:
                res = ev(l, env, where) is None
            else:
                raise Refuse(f'{where}: unrecognised comparison {ast.dump(e)}')
            return res if isinstance(e.ops[0], ast.Is) else not res
        raise Refuse(f'{where}: unrecognised expression {ast.dump(e)}')

    upd_right = D("required_vars.update(self.right._unique_variables_)")
    upd_conc = D("required_vars.update(conc._unique_variables_)")

    def run(stmts, env, out, where):
        for st in stmts:
            d = ast.dump(st)
            if d in (D("if not child:\n    child = self.left"), D("required_vars = HashedIterable()")):
                continue
            if d == D("return required_vars"):
                out['returned'] = True
                return
            if d == upd_right:
                out['adds_right'] = True
                continue
            if d == D("required_vars.update(self._flatten_nodes_of_(self.right))"):
                # the flatten nodes of the right operand ride along with its variables (the D-model's fragment has no flatten: no table)
                need(out.get('adds_right'), f'{where}: the flatten nodes of the right operand are added without its variables')
                continue
            if isinstance(st, ast.For) and isinstance(st.target, ast.Name) and st.target.id == 'conc' \
                    and [ast.dump(x) for x in st.body] == [upd_conc] and '_conclusion_' in ast.dump(st.iter):
                continue
            if isinstance(st, ast.Assign) and len(st.targets) == 1 and isinstance(st.targets[0], ast.Name) \
                    and st.targets[0].id not in ('child', 'required_vars', 'self'):
                env[st.targets[0].id] = ev(st.value, env, where)
                continue
            if isinstance(st, ast.If):
                run(st.body if ev(st.test, env, where) else st.orelse, env, out, where)
                if out.get('returned'):
                    return
                continue
            if isinstance(st, ast.Expr) and isinstance(st.value, ast.Call):
                c = st.value
                if ast.dump(c.func) == ast.dump(ast.parse('required_vars.update').body[0].value) and len(c.args) == 1 \
                        and isinstance(c.args[0], ast.Call) \
                        and ast.dump(c.args[0].func) == ast.dump(ast.parse('self._parent_._required_variables_from_child_').body[0].value):
                    a = c.args[0]
                    need(len(a.args) >= 1 and isinstance(a.args[0], ast.Name) and a.args[0].id == 'self', f'{where}: the parent is not asked about self')
                    arg = a.args[1] if len(a.args) == 2 else (a.keywords[0].value if len(a.keywords) == 1 and a.keywords[0].arg == 'when_true' else None)
                    need(arg is not None, f'{where}: unrecognised call of the parent')
                    need('parent_arg' not in out, f'{where}: the parent is asked twice')
                    out['parent_arg'] = ev(arg, env, where)
                    out['asked'] = True
                    continue
            raise Refuse(f'{where}: unrecognised statement {d[:160]}')

    res = {}
    for cname in ('BinaryOperator', 'OR'):
        fn = method(find(sym, ast.ClassDef, cname), '_required_variables_from_child_')
        an = [a.arg for a in fn.args.args]
        need(an == ['self', 'child', 'when_true'], f'{cname}._required_variables_from_child_: unexpected parameters')
        tab = {}
        for child in ('left', 'right'):
            for wt in (True, False, None):
                out = {}
                run(body_wo_doc(fn), {'child': child, 'when_true': wt}, out, f'{cname}._required_variables_from_child_')
                need(out.get('returned') and out.get('asked'), f'{cname}._required_variables_from_child_: a path does not ask the parent / return')
                tab[(child == 'left', wt)] = (bool(out.get('adds_right')), out['parent_arg'])
        res[cname] = tab
    # ForAll: the passes for the different universal values are intersected on EVERY variable of the condition: its override adds them
    fa = find(sym, ast.ClassDef, 'ForAll')
    ov = [n for n in fa.body if isinstance(n, ast.FunctionDef) and n.name == '_required_variables_from_child_']
    if not ov:
        res['forall_adds_condition_variables'] = False
    else:
        b = [ast.dump(x) for x in body_wo_doc(ov[0])]
        need(b == [D("required_vars = super()._required_variables_from_child_(child, when_true)"),
                   D("required_vars.update(self.condition._unique_variables_)"), D("return required_vars")],
             'ForAll._required_variables_from_child_: not `what a binary operator requires, plus every variable of the condition`')
        res['forall_adds_condition_variables'] = True
    return res


def dedup_site(sym, cd):
    """SymbolicExpression._is_duplicate_output_ and SeenSet.add / SeenSet.check: the duplicate check of Dedup.v (`dup_check`) is a
    transcription of exactly these three bodies; they are PINNED: the statements must be the ones below (annotations, comments and
    docstrings aside), anything else is refused."""
    def stmts(src):
        return [ast.dump(x) for x in body_wo_doc(ast.parse(src).body[0])]
    ref_dup = """
def f(self, output):
    required_vars = self._parent_._required_variables_from_child_(self, when_true=not self._is_false_)
    if not required_vars:
        return False
    required_output = {k: v for k, v in output.items() if k in required_vars}
    if not required_output:
        return False
    parent_id = self._parent_._id_
    seen_by_truth = self._seen_parent_values_by_parent_.setdefault(parent_id, {True: SeenSet(), False: SeenSet()})
    seen_set = seen_by_truth[not self._is_false_]
    if seen_set.check(required_output):
        return True
    else:
        seen_set.add(required_output)
        return False
"""
    ref_add = """
def f(self, assignment):
    if not self.all_seen:
        self.seen.append(assignment)
        if not assignment:
            self.all_seen = True
"""
    ref_check = """
def f(self, assignment):
    if self.all_seen:
        return True
    if not assignment:
        self.all_seen = True
        self.seen.append(assignment)
        return False
    for constraint in self.seen:
        if all(assignment[k] == v if k in assignment else False for k, v in constraint.items()):
            return True
    return False
"""
    fn = method(find(sym, ast.ClassDef, 'SymbolicExpression'), '_is_duplicate_output_')
    need([ast.dump(x) for x in body_wo_doc(fn)] == stmts(ref_dup),
         'SymbolicExpression._is_duplicate_output_: not the statements the duplicate check of Dedup.v transcribes')
    ss = find(cd, ast.ClassDef, 'SeenSet')
    need([ast.dump(x) for x in body_wo_doc(method(ss, 'add'))] == stmts(ref_add), 'SeenSet.add: not the statements Dedup.v transcribes')
    need([ast.dump(x) for x in body_wo_doc(method(ss, 'check'))] == stmts(ref_check), 'SeenSet.check: not the statements Dedup.v transcribes')
    # HashedValue.__eq__: identity of the wrapped object (what `assignment[k] == v` compares)
    return True


def reset_discipline(sym):
    """An.evaluate / The.evaluate: the work sits in a `try` whose `finally` clause calls self._reset_cache_() unconditionally (so every
    evaluation - complete, abandoned or aborted - leaves the de-duplication state empty: the D-model starts every evaluation from the
    empty state); SymbolicExpression._reset_cache_ resets the node and recurses into every child; _reset_only_my_cache_ empties
    the per-parent seen sets.  Returns True iff all of that is recognised, False if the reset is conditional / missing."""
    D = lambda src: ast.dump(ast.parse(src).body[0])
    ok = True
    for cname in ('An', 'The'):
        fn = method(find(sym, ast.ClassDef, cname), 'evaluate')
        tries = [n for n in ast.walk(fn) if isinstance(n, ast.Try) and n.finalbody]
        outer = [t for t in tries if any(ast.dump(st) == D("self._reset_cache_()") for st in t.finalbody)]
        # every advance / evaluation of the result generator must be inside such a try
        if not outer:
            ok = False
            continue
        t = outer[0]
        work = [n for st in t.body for n in ast.walk(st)]
        outside = [n for st in fn.body if st is not t for n in ast.walk(st)]
        def advances(nodes):
            return any((isinstance(n, ast.Call) and isinstance(n.func, ast.Name) and n.func.id == 'next') or isinstance(n, (ast.Yield, ast.YieldFrom, ast.For))
                       or (isinstance(n, ast.Call) and isinstance(n.func, ast.Attribute) and n.func.attr == '_evaluate_') for n in nodes)
        need(advances(work), f'{cname}.evaluate: the try block that resets in its finally clause does not contain the evaluation')
        if advances([n for n in outside if not isinstance(n, ast.FunctionDef)]):
            ok = False
    # ... and does the evaluation ALSO reset the state before it starts (an earlier evaluation whose iterator is still referenced has
    # not run its finally clause): self._reset_cache_() as a statement of the function body before the try block
    at_start = True
    for cname in ('An', 'The'):
        fn = method(find(sym, ast.ClassDef, cname), 'evaluate')
        b = body_wo_doc(fn)
        k = next((j for j, st in enumerate(b) if isinstance(st, ast.Try)), len(b))
        if not any(ast.dump(st) == D("self._reset_cache_()") for st in b[:k]):
            at_start = False
    base = find(sym, ast.ClassDef, 'SymbolicExpression')
    rc = [ast.dump(x) for x in body_wo_doc(method(base, '_reset_cache_'))]
    need(rc == [D("self._reset_only_my_cache_()"), D("for child in self._children_:\n    child._reset_cache_()")],
         'SymbolicExpression._reset_cache_: not `reset this node, then every child`')
    # ... for EVERY node: no expression class of symbolic.py overrides _reset_cache_ (an override that does not recurse would leave
    # the state of a sub-tree - e.g. of a nested query used as an operand - behind)
    overriding = [c.name for c in ast.walk(sym) if isinstance(c, ast.ClassDef) and c.name != 'SymbolicExpression'
                  and any(isinstance(m, ast.FunctionDef) and m.name == '_reset_cache_' for m in c.body)]
    need(not overriding, f'_reset_cache_ is overridden by {overriding}: the reset no longer reaches every node of the tree')
    ro = [ast.dump(x) for x in body_wo_doc(method(base, '_reset_only_my_cache_'))]
    need(D("self._seen_parent_values_by_parent_ = {}") in ro, 'SymbolicExpression._reset_only_my_cache_: the per-parent seen sets are not emptied')
    return ok, at_start


def dedup_sites(sym):
    """AND._evaluate__ / ElseIf._evaluate__: WHERE the duplicate check is applied.  Every statement `if self._is_duplicate_output_(row): continue`
    is located and the chain of enclosing `if` tests (then-branches only) is compared with the two chains Dedup.v transcribes:
        AND     under  `self._yield_when_false_ and self.left._is_false_`                      (a FALSE left row passed up)
        ElseIf  under  `self.left._is_false_`  then  `not self._is_false_`                       (a TRUE row of the right side)
    Any other number of sites or any other chain is refused."""
    E = lambda src: ast.dump(ast.parse(src).body[0].value)

    def sites(fn):
        found = []

        def walk(stmts, chain):
            for st in stmts:
                if isinstance(st, ast.If):
                    t = st.test
                    if isinstance(t, ast.Call) and isinstance(t.func, ast.Attribute) and t.func.attr == '_is_duplicate_output_':
                        need([ast.dump(x) for x in st.body] == [ast.dump(ast.parse('while 1:\n    continue').body[0].body[0])] and not st.orelse,
                             f'{fn.name}: a duplicate is not simply skipped')
                        found.append(list(chain))
                        continue
                    need('_is_duplicate_output_' not in ast.dump(t), f'{fn.name}: unrecognised use of the duplicate check in a test')
                    walk(st.body, chain + [ast.dump(t)])
                    walk(st.orelse, chain + ['else:' + ast.dump(t)])
                elif isinstance(st, (ast.For, ast.While)):
                    walk(st.body, chain)
                    walk(st.orelse, chain)
                elif isinstance(st, ast.Try):
                    walk(st.body, chain)
                    walk(st.finalbody, chain)
                    for h in st.handlers:
                        walk(h.body, chain)
                elif isinstance(st, ast.With):
                    walk(st.body, chain)
                else:
                    need('_is_duplicate_output_' not in ast.dump(st), f'{fn.name}: unrecognised use of the duplicate check')
        walk(fn.body, [])
        return found
    a = sites(method(find(sym, ast.ClassDef, 'AND'), '_evaluate__'))
    e = sites(method(find(sym, ast.ClassDef, 'ElseIf'), '_evaluate__'))
    a_ok = a == [[E("self._yield_when_false_ and self.left._is_false_")]]
    e_ok = e == [[E("self.left._is_false_"), E("not self._is_false_")]]
    need(len(a) == 1 and len(e) == 1, 'AND / ElseIf: not exactly one duplicate check each')
    return ('SiteFalseLeft' if a_ok else 'SiteOther'), ('SiteRightTrue' if e_ok else 'SiteOther')


def operand_order(sym):
    """Comparator.get_first_second_operands: the RIGHT operand is enumerated first iff one of its variables is bound by the incoming
    row (EvalPure.bound_in / the CCmp case of EvalPure.eval transcribe exactly this).  Pinned body."""
    ref = """
def f(self, sources):
    if sources and any(v.value._var_._id_ in sources for v in self.right._unique_variables_):
        return self.right, self.left
    else:
        return self.left, self.right
"""
    fn = method(find(sym, ast.ClassDef, 'Comparator'), 'get_first_second_operands')
    need([ast.dump(x) for x in body_wo_doc(fn)] == [ast.dump(x) for x in ast.parse(ref).body[0].body],
         'Comparator.get_first_second_operands: not `right operand first iff one of its variables is bound`')
    ev = method(find(sym, ast.ClassDef, 'Comparator'), '_evaluate__')
    src = ast.dump(ev)
    need(ast.dump(ast.parse("first_operand, second_operand = self.get_first_second_operands(sources)").body[0]) in [ast.dump(x) for x in ast.walk(ev) if isinstance(x, ast.Assign)],
         'Comparator._evaluate__: the operand order is not taken from get_first_second_operands(sources)')
    return True


def cache_call_sites(sym):
    """The cached call sites of Comparator / AND / ElseIf ._evaluate__ (IndexedMemo_Facts.cached_step is the model of ONE such site):
    a covered lookup is answered from the cache and nothing else happens for it, an uncovered one is evaluated.  Recognised, per class:
        if is_caching_enabled() and self.<cache>.check(<lookup>):            |  if is_caching_enabled():
            yield from self.yield_final_output_from_cache(<lookup>[, self.<cache>])   |      if self.<cache>.check(<lookup>):  ... same body
            continue | return
    with exactly the arguments shown (no further argument to check, the same lookup in both calls), exactly one such guard per class,
    and self.update_cache(<row>[, self.<cache>]) called with that cache somewhere in the uncached path.  Anything else is refused."""
    E = lambda src: ast.dump(ast.parse(src).body[0].value)
    caching = E("is_caching_enabled()")
    out = {}
    for cname, cache, lookup in (('Comparator', '_cache_', 'sources'), ('AND', 'right_cache', 'left_value'), ('ElseIf', 'right_cache', 'left_value')):
        fn = method(find(sym, ast.ClassDef, cname), '_evaluate__')
        check = E(f"self.{cache}.check({lookup})")
        replay = {ast.dump(ast.parse(f"yield from self.yield_final_output_from_cache({lookup})").body[0]),
                  ast.dump(ast.parse(f"yield from self.yield_final_output_from_cache({lookup}, self.{cache})").body[0])}
        guards = []
        for n in ast.walk(fn):
            if not isinstance(n, ast.If):
                continue
            t = ast.dump(n.test)
            if t == ast.dump(ast.parse(f"is_caching_enabled() and self.{cache}.check({lookup})").body[0].value):
                guards.append(n)
            elif t == caching and len(n.body) == 1 and isinstance(n.body[0], ast.If) and ast.dump(n.body[0].test) == check and not n.orelse:
                guards.append(n.body[0])
            elif '.check(' in t.replace("attr='check'", '.check(') and f"attr='{cache}'" in t and t != check:
                raise Refuse(f'{cname}._evaluate__: unrecognised coverage test on {cache}')
        need(len(guards) == 1, f'{cname}._evaluate__: expected exactly one coverage test of {cache} on {lookup}, found {len(guards)}')
        g = guards[0]
        # WHERE the test stands: the chain of enclosing `if` tests (then-branches) - ElseIf asks its right-side cache only for a row its
        # left side rejected, AND / Comparator ask unconditionally
        def chain_of(stmts, chain):
            for st in stmts:
                if st is g or (isinstance(st, ast.If) and len(st.body) == 1 and st.body[0] is g):
                    return chain
                if isinstance(st, ast.If):
                    r = chain_of(st.body, chain + [ast.dump(st.test)])
                    if r is None:
                        r = chain_of(st.orelse, chain + ['else:' + ast.dump(st.test)])
                    if r is not None:
                        return r
                elif isinstance(st, (ast.For, ast.While, ast.With)):
                    r = chain_of(st.body, chain)
                    if r is not None:
                        return r
                elif isinstance(st, ast.Try):
                    for part in (st.body, st.finalbody):
                        r = chain_of(part, chain)
                        if r is not None:
                            return r
            return None
        where = chain_of(fn.body, [])
        expected = [E("self.left._is_false_")] if cname == 'ElseIf' else []
        need(where == expected, f'{cname}._evaluate__: the coverage test of {cache} does not stand where the model has it')
        need(len(g.body) == 2 and ast.dump(g.body[0]) in replay and isinstance(g.body[1], (ast.Continue, ast.Return)) and not g.orelse,
             f'{cname}._evaluate__: a covered lookup is not simply replayed from the cache')
        calls = [n for n in ast.walk(fn) if isinstance(n, ast.Call) and isinstance(n.func, ast.Attribute) and n.func.attr == 'check'
                 and isinstance(n.func.value, ast.Attribute) and n.func.value.attr == cache]
        need(len(calls) == 1 and len(calls[0].args) == 1 and not calls[0].keywords, f'{cname}._evaluate__: the coverage test takes further arguments')
        upd = [n for n in ast.walk(fn) if isinstance(n, ast.Call) and isinstance(n.func, ast.Attribute) and n.func.attr == 'update_cache']
        need(upd and all(len(u.args) in (1, 2) and not u.keywords and (len(u.args) == 1 or ast.dump(u.args[1]) == E(f"self.{cache}")) for u in upd)
             and (cache == '_cache_' or all(len(u.args) == 2 for u in upd)),
             f'{cname}._evaluate__: rows are not stored into {cache} by update_cache(row, cache)')
        out[cname] = True
    return all(out.values())


def rule_builders(rule):
    """rule.refinement / rule.alternative_or_next: how the new operator is wrapped around the current node and linked into the
    operator above it.  Recognised shapes only; anything else is refused."""
    def D(src):
        return ast.dump(ast.parse(src).body[0])

    def stmts(fn):
        return [ast.dump(x) for x in body_wo_doc(fn)]
    ref = find(rule, ast.FunctionDef, 'refinement')
    rs = stmts(ref)
    need(D("current_node = SymbolicExpression._current_parent_()") in rs and D("prev_parent = current_node._parent_") in rs
         and D("current_node._parent_ = None") in rs and D("new_conditions_root._parent_ = prev_parent") in rs
         and D("return new_conditions_root.right") == rs[-1], 'refinement: unexpected statements')
    if D("new_conditions_root = ExceptIf(SymbolicExpression._current_parent_(), new_branch)") in rs or \
            D("new_conditions_root = ExceptIf(current_node, new_branch)") in rs:
        ref_left = True
    else:
        raise Refuse('refinement: the ExceptIf is not built as ExceptIf(current, new_branch)')
    relink_side = D("""if isinstance(prev_parent, BinaryOperator):
    if prev_parent.left is current_node:
        prev_parent.left = new_conditions_root
    else:
        prev_parent.right = new_conditions_root""")
    relink_right = D("""if isinstance(prev_parent, BinaryOperator):
    prev_parent.right = new_conditions_root""")
    known = {D("new_branch = chained_logic(AND, *conditions)"), D("new_branch._node_.weight = RDREdge.Refinement")}
    extra = [x for x in rs if x not in known and 'prev_parent' in x and 'new_conditions_root' in x
             and x != D("new_conditions_root._parent_ = prev_parent")]
    if relink_side in rs:
        ref_relink = 'RelinkSide'
    elif relink_right in rs:
        ref_relink = 'RelinkRightOnly'
    else:
        need(not extra, 'refinement: unrecognised re-linking code')
        ref_relink = 'RelinkNone'
    alt = find(rule, ast.FunctionDef, 'alternative_or_next')
    as_ = stmts(alt)
    need(D("current_node = SymbolicExpression._current_parent_()") in as_ and D("prev_parent = current_node._parent_") in as_
         and D("current_node._parent_ = None") in as_ and D("new_conditions_root._parent_ = prev_parent") in as_
         and D("return new_conditions_root.right") == as_[-1], 'alternative_or_next: unexpected statements')
    loop = D("""while (isinstance(current_node._parent_, (Alternative, Next))
       or (isinstance(current_node._parent_, ExceptIf) and current_node is current_node._parent_.left)):
    current_node = current_node._parent_""")
    once = D("""if isinstance(current_node._parent_, (Alternative, Next)):
    current_node = current_node._parent_
elif isinstance(current_node._parent_, ExceptIf) and current_node is current_node._parent_.left:
    current_node = current_node._parent_""")
    if loop in as_:
        climb = 'ClimbLoop'
    elif once in as_:
        climb = 'ClimbOnce'
    else:
        raise Refuse('alternative_or_next: unrecognised way of finding the node to wrap')
    wrap = D("""if type_ == RDREdge.Alternative:
    new_conditions_root = Alternative(current_node, new_branch)
elif type_ == RDREdge.Next:
    new_conditions_root = Next(current_node, new_branch)
else:
    raise ValueError(f"Invalid type: {type_}, expected one of: {RDREdge.Alternative}, {RDREdge.Next}")""")
    need(wrap in as_, 'alternative_or_next: the new operator is not built as Alternative(current, new_branch)')
    if relink_right in as_:
        alt_relink = 'RelinkRightOnly'
    elif relink_side in as_:
        alt_relink = 'RelinkSide'
    else:
        alt_relink = 'RelinkNone'
    return ref_left, ref_relink, climb, alt_relink


def lazy_iteration(hd):
    """hashed_data.HashedIterable.__iter__: first the memoised values, then the remainder of the wrapped iterator; for every pulled
    element: is one that is already memoised skipped, and is a new one memoised BEFORE it is handed out?
    Recognised body:  yield from self.values.values()  ;  for v in self.iterable: [if v.id_ in self.values: continue]
                      { self.values[v.id_] = v , yield v } in either order.   The memoising loop may live in a helper generator
    of the same class that __iter__ delegates to with `yield from self.<helper>()`."""
    cls = find(hd, ast.ClassDef, 'HashedIterable')
    it = method(cls, '__iter__')
    b = body_wo_doc(it)
    D = lambda src: ast.dump(ast.parse(src).body[0])
    need(len(b) == 2 and ast.dump(b[0]) == D("yield from self.values.values()"), 'HashedIterable.__iter__: does not start by yielding the memoised values')
    loop = b[1]
    if isinstance(loop, ast.Expr) and isinstance(loop.value, ast.YieldFrom) and isinstance(loop.value.value, ast.Call) \
            and isinstance(loop.value.value.func, ast.Attribute) and isinstance(loop.value.value.func.value, ast.Name) \
            and loop.value.value.func.value.id == 'self' and not loop.value.value.args:
        helper = method(cls, loop.value.value.func.attr)
        hb = body_wo_doc(helper)
        need(len(hb) == 1, 'HashedIterable.__iter__: unrecognised helper generator')
        loop = hb[0]
    need(isinstance(loop, ast.For) and isinstance(loop.target, ast.Name) and loop.target.id == 'v'
         and ast.dump(loop.iter) == ast.dump(ast.parse('self.iterable').body[0].value) and not loop.orelse,
         'HashedIterable.__iter__: the second part is not `for v in self.iterable`')
    stmts = [ast.dump(x) for x in loop.body]
    skip = D("if v.id_ in self.values:\n    continue")
    rec, yld = D("self.values[v.id_] = v"), D("yield v")
    skips = bool(stmts) and stmts[0] == skip
    rest = stmts[1:] if skips else stmts
    if rest == [rec, yld]:
        before = True
    elif rest == [yld, rec]:
        before = False
    else:
        raise Refuse('HashedIterable.__iter__: unrecognised loop body')
    return skips, before


# ------------------------------------------------------------------------------------------------
def emit(d):
    sym, ent, pred, utl = (parse(os.path.join(d, f)) for f in ('symbolic.py', 'entity.py', 'predicate.py', 'utils.py'))
    inv = inverse_table(sym)
    rules, default = not_rules(sym)
    dn = dunders(sym)
    in_left_container, in_op, contains_item_first = membership(ent)
    left_fold, builders = chains(sym, ent)
    or_same, or_diff = optimize_or(sym)
    pos = positional(pred)
    scal = scalar_types(utl)
    mb = mode_bracketing(sym)
    bd = block_discipline(sym)
    fd = flag_discipline(sym)
    cr = cached_replay(sym)
    rb = rule_builders(parse(os.path.join(d, 'rule.py')))
    lz = lazy_iteration(parse(os.path.join(d, 'hashed_data.py')))
    rq = required_variables(sym)
    ds = dedup_site(sym, parse(os.path.join(d, 'cache_data.py')))
    rd = reset_discipline(sym)
    dsites = dedup_sites(sym)
    oo = operand_order(sym)
    ccs = cache_call_sites(sym)
    o = []
    o.append("(* Generated.v — REGENERATED ON EVERY RUN by translator/eql2coq.py from /repo's current source. Do not edit. *)")
    o.append("From EQL Require Import Base Values.\n")
    o.append("(* Comparator.inverse_operation_map *)")
    o.append("Definition inverse_op (o : cmpop) : option cmpop :=\n  match o with")
    for k, v in inv.items():
        o.append(f"  | {k} => Some {v}")
    if len(inv) < 8:
        o.append("  | _ => None")
    o.append("  end.\n")
    o.append("(* symbolic.Not: the isinstance chain, in order *)")
    o.append("Inductive nkind := KResultQuantifier | KEntity | KSetOf | KAND | KOR | KOther.")
    o.append("Inductive neg_rule := NegRaise | NegDescriptor | NegBoth_ElseIf | NegBoth_AND | NegBoth_Union | NegToggle | NegSetTrue.")
    kinds = {'ResultQuantifier': 'KResultQuantifier', 'Entity': 'KEntity', 'SetOf': 'KSetOf', 'AND': 'KAND', 'OR': 'KOR'}
    o.append("Definition not_rule (k : nkind) : neg_rule :=\n  match k with")
    seen = set()
    for k, act in rules:
        need(k in kinds, f'Not: unknown class {k} in the isinstance chain')
        if k in seen:
            continue
        seen.add(k)
        o.append(f"  | {kinds[k]} => {act}")
    o.append(f"  | _ => {default}\n  end.\n")
    # the order of the isinstance chain matters only through subclassing: ElseIf/Union are OR, An/The are ResultQuantifier;
    # the model's kinds are already the classes tested, so the first matching test is the one listed.
    o.append("(* CanBehaveLikeAVariable dunder methods: (operands swapped?, operation); swapped = Comparator(other, self, op) *)")
    o.append("Inductive dunder := D_eq | D_ne | D_lt | D_le | D_gt | D_ge | D_contains.")
    o.append("Definition dunder_cmp (d : dunder) : bool * cmpop :=\n  match d with")
    for name, (swapped, op) in dn.items():
        o.append(f"  | D_{name.strip('_')} => ({'true' if swapped else 'false'}, {op})")
    o.append("  end.\n")
    o.append("(* entity.in_(item, container) builds Comparator(container, item, op) iff in_left_is_container *)")
    o.append(f"Definition in_left_is_container : bool := {'true' if in_left_container else 'false'}.")
    o.append(f"Definition in_op : cmpop := {in_op}.")
    o.append("(* entity.contains(container, item) = in_(item, container) iff contains_item_first *)")
    o.append(f"Definition contains_item_first : bool := {'true' if contains_item_first else 'false'}.\n")
    o.append("(* symbolic.chained_logic folds to the left; and_ / or_ builders *)")
    o.append(f"Definition chain_left_fold : bool := {'true' if left_fold else 'false'}.")
    o.append("Inductive builder := B_AND | B_optimize_or | B_other.")
    bn = {'AND': 'B_AND', '_optimize_or': 'B_optimize_or'}
    o.append(f"Definition and_builder : builder := {bn.get(builders['and_'], 'B_other')}.")
    o.append(f"Definition or_builder : builder := {bn.get(builders['or_'], 'B_other')}.\n")
    o.append("(* symbolic._optimize_or: node built when the (lazy, never materialised) variable sets compare equal / unequal *)")
    o.append("Inductive ornode := N_ElseIf | N_Union | N_otheror.")
    on = {'ElseIf': 'N_ElseIf', 'Union': 'N_Union'}
    o.append(f"Definition or_same_vars : ornode := {on.get(or_same, 'N_otheror')}.")
    o.append(f"Definition or_diff_vars : ornode := {on.get(or_diff, 'N_otheror')}.\n")
    o.append("(* predicate.update_domain_and_kwargs_from_args: constructor field (0-based, self excluded) constrained by the")
    o.append("   positional argument at position [pos] (0-based among ALL positional arguments) when [from_first] says whether")
    o.append("   a From(...) domain occupies position 0 *)")
    if pos == 'enumerate_index':
        o.append("Definition positional_field (from_first : bool) (pos : nat) : nat := pos.")
    else:
        o.append("Definition positional_field (from_first : bool) (pos : nat) : nat := if from_first then pos - 1 else pos.")
    o.append("")
    o.append("(* utils.is_iterable: types that have __iter__ but count as scalars *)")
    o.append("Inductive pytype := Ty_str | Ty_type | Ty_bytes | Ty_bytearray | Ty_other.")
    tn = {'str': 'Ty_str', 'type': 'Ty_type', 'bytes': 'Ty_bytes', 'bytearray': 'Ty_bytearray'}
    o.append("Definition scalar_types : list pytype := [" + "; ".join(tn.get(t, 'Ty_other') for t in scal) + "].")
    o.append("")
    o.append("(* An.evaluate / The.evaluate: how the result generators bracket the symbolic mode (see Mode.v) *)")
    for k, v in mb.items():
        o.append(f"Definition {k} : bool := {'true' if v else 'false'}.")
    o.append("(* symbolic_mode / rule_mode: the mode found on entry is saved first and written back in the finally clause *)")
    o.append(f"Definition block_restores_entry_mode : bool := {'true' if bd else 'false'}.")
    o.append("(* Comparator / AND / ElseIf ._evaluate__: in every loop over rows the truth flag is set before it is stored with the row,")
    o.append("   read by the duplicate check, or read by the consumer after a yield *)")
    o.append(f"Definition row_flag_is_current : bool := {'true' if fd else 'false'}.")
    o.append("(* BinaryOperator.yield_final_output_from_cache / yield_from_cache replay self._most_general_(cache.retrieve(lookup)) *)")
    o.append(f"Definition replay_keeps_most_general : bool := {'true' if cr else 'false'}.")
    o.append("")
    o.append("(* rule.refinement / rule.alternative_or_next: how the new operator is linked into the tree (see RuleTree.v) *)")
    o.append("Inductive relink := RelinkNone | RelinkRightOnly | RelinkSide.")
    o.append("Inductive climbing := ClimbOnce | ClimbLoop.")
    o.append(f"Definition refinement_wraps_current_as_left : bool := {'true' if rb[0] else 'false'}.")
    o.append(f"Definition refinement_relink : relink := {rb[1]}.")
    o.append(f"Definition alternative_climb : climbing := {rb[2]}.")
    o.append(f"Definition alternative_relink : relink := {rb[3]}.")
    o.append("")
    o.append("(* hashed_data.HashedIterable.__iter__: the lazily consumed, memoised domain (see Lazy.v) *)")
    o.append(f"Definition iter_skips_memoised : bool := {'true' if lz[0] else 'false'}.")
    o.append(f"Definition iter_memoises_before_yield : bool := {'true' if lz[1] else 'false'}.")
    o.append("")
    o.append("(* BinaryOperator (AND) / OR ._required_variables_from_child_(child, when_true): for the child on the left / right and")
    o.append("   when_true = Some true / Some false / None: are the right operand's variables added, and what is the parent asked (see Dedup.v) *)")
    ob = lambda v: 'None' if v is None else ('Some true' if v else 'Some false')
    for cname, pre in (('BinaryOperator', 'and'), ('OR', 'or')):
        for what, idx, ty, show in (('adds_right', 0, 'bool', lambda v: 'true' if v else 'false'), ('parent_arg', 1, 'option bool', ob)):
            o.append(f"Definition {pre}_{what} (is_left : bool) (t : option bool) : {ty} :=\n  match is_left, t with")
            for il in (True, False):
                for wt in (True, False, None):
                    o.append(f"  | {'true' if il else 'false'}, {ob(wt)} => {show(rq[cname][(il, wt)][idx])}")
            o.append("  end.")
    o.append("(* ForAll._required_variables_from_child_: every variable of the condition is required from it (the passes are intersected on them) *)")
    o.append(f"Definition forall_adds_condition_variables : bool := {'true' if rq['forall_adds_condition_variables'] else 'false'}.")
    o.append("")
    o.append("(* SymbolicExpression._is_duplicate_output_, SeenSet.add, SeenSet.check have the statements Dedup.dup_check transcribes (pinned) *)")
    o.append(f"Definition dedup_site_as_modelled : bool := {'true' if ds else 'false'}.")
    o.append("(* the cached call sites of Comparator / AND / ElseIf: a covered lookup is replayed from the cache and nothing else, an uncovered one is")
    o.append("   evaluated and its rows stored (the shape IndexedMemo_Facts.cached_step models) *)")
    o.append(f"Definition cached_call_sites_as_modelled : bool := {'true' if ccs else 'false'}.")
    o.append("(* Comparator.get_first_second_operands: the right operand is enumerated first iff one of its variables is bound (pinned) *)")
    o.append(f"Definition comparator_right_first_iff_bound : bool := {'true' if oo else 'false'}.")
    o.append("(* where AND / ElseIf apply the duplicate check: to a FALSE left row that is passed up / to a TRUE row of the right side *)")
    o.append("Inductive dsite := SiteFalseLeft | SiteRightTrue | SiteOther.")
    o.append(f"Definition and_dedup_site : dsite := {dsites[0]}.")
    o.append(f"Definition else_dedup_site : dsite := {dsites[1]}.")
    o.append("(* An.evaluate / The.evaluate reset the de-duplication state in a finally clause around the whole evaluation (every exit) *)")
    o.append(f"Definition evaluation_resets_dedup_state : bool := {'true' if rd[0] else 'false'}.")
    o.append("(* ... and before it starts (an abandoned evaluation whose iterator is still referenced has not run its finally clause) *)")
    o.append(f"Definition evaluation_resets_dedup_state_at_start : bool := {'true' if rd[1] else 'false'}.")
    return "\n".join(o) + "\n"


if __name__ == '__main__':
    try:
        sys.stdout.write(emit(sys.argv[1]))
    except Refuse as e:
        print('TRANSLATOR REFUSES: ' + str(e))
        sys.exit(2)
    except Exception as e:          # fail-closed: anything unexpected is a refusal too
        print('TRANSLATOR REFUSES (unexpected shape): ' + repr(e))
        sys.exit(2)
